// Package c10 decides C10: integer and numeric operations are exact.
//
// Shape E: the full cross product of a boundary pool of ints and floats under
// every numeric operator, conversion, formatting verb and integer-computing
// built-in is evaluated by the real interpreter (pre-compiled one-line Starlark
// functions called through starlark.Call) and compared with what Python 3
// (int, fractions.Fraction, range; oracle.py) says the specification requires.
// The whole table is run under every Int representation (address-space
// optimised; fallback selected by making the 4 GB mmap fail under `ulimit -v`;
// thorough: int_generic.go through a build overlay), and the runs must also
// agree with each other case by case.
package c10

import (
	"bufio"
	"bytes"
	"encoding/binary"
	"encoding/json"
	"fmt"
	"hash/fnv"
	"math"
	"math/big"
	"os"
	"os/exec"
	"path/filepath"
	"runtime"
	"runtime/debug"
	"sort"
	"strconv"
	"strings"
	"sync"
	"syscall"
	"time"

	starlarkmath "go.starlark.net/lib/math"
	"go.starlark.net/starlark"
	"go.starlark.net/syntax"

	"verif/internal/fw"
)

// ---------------------------------------------------------------------------
// helper program: every op is one small Starlark function

var unarySrc = map[string]string{
	"neg": "-x", "pos": "+x", "inv": "~x", "abs": "abs(x)", "bool": "bool(x)", "int": "int(x)", "float": "float(x)",
	"str": "str(x)", "repr": "repr(x)", "fmt_s": `"%s" % x`, "fmt_r": `"%r" % x`,
	"fmt_d": `"%d" % x`, "fmt_i": `"%i" % x`, "fmt_x": `"%x" % x`, "fmt_X": `"%X" % x`, "fmt_o": `"%o" % x`,
	"floor": "math.floor(x)", "ceil": "math.ceil(x)", "round": "math.round(x)", "int_s": "int(x)",
}

var binarySrc = map[string]string{
	"add": "+", "sub": "-", "mul": "*", "truediv": "/", "floordiv": "//", "mod": "%",
	"and": "&", "or": "|", "xor": "^", "lsh": "<<", "rsh": ">>",
	"eq": "==", "ne": "!=", "lt": "<", "le": "<=", "gt": ">", "ge": ">=",
}

var ternaryOps = []string{"add", "sub", "mul", "floordiv", "mod", "and", "or", "xor"}

const fixedSrc = `
def op_int_sb(s, b): return int(s, b)
def op_divmod_law(x, y):
    q = x // y
    r = x % y
    return [q * y + r == x, r == 0 or ((r < 0) == (y < 0)), abs(r) < abs(y)]
def first3(r):
    out = []
    for x in r:
        if len(out) == 3:
            break
        out.append(x)
    return out
def bounded(r, f):
    if len(r) > 64:
        return "too long: len %d" % len(r)
    return f(r)
def op_range_len(a, b, c): return len(range(a, b, c))
def op_range2_len(a, b): return len(range(a, b))
def op_range1_len(b): return len(range(b))
def op_range1_str(b): return str(range(b))
def op_range_bool(a, b, c): return bool(range(a, b, c))
def op_range_str(a, b, c): return str(range(a, b, c))
def op_range_first3(a, b, c): return first3(range(a, b, c))
def op_range_list(a, b, c): return bounded(range(a, b, c), list)
def op_range_reversed(a, b, c): return bounded(range(a, b, c), reversed)
def op_range_idx(a, b, c, i): return range(a, b, c)[i]
def op_range_in(a, b, c, x): return x in range(a, b, c)
def op_range_slice_len(a, b, c, i, j, k): return len(range(a, b, c)[i:j:k])
def op_range_slice(a, b, c, i, j, k): return range(a, b, c)[i:j:k]
def op_range_slice_first3(a, b, c, i, j, k): return first3(range(a, b, c)[i:j:k])
def op_range_slice_idx(a, b, c, i, j, k, m): return range(a, b, c)[i:j:k][m]
def op_range_eq(a, b, c, d, e, f): return range(a, b, c) == range(d, e, f)
def op_enumerate(s): return enumerate(["a", "b", "c"], s)
def op_enumerate0(): return enumerate(["a", "b", "c"])
def op_rep_len_str_l(n): return len("ab" * n)
def op_rep_len_str_r(n): return len(n * "ab")
def op_rep_len_bytes_l(n): return len(b"ab" * n)
def op_rep_len_bytes_r(n): return len(n * b"ab")
def op_rep_len_list_l(n): return len(["a", "b"] * n)
def op_rep_len_list_r(n): return len(n * ["a", "b"])
def op_enumerate_elems(s): return list(enumerate("abc".elems(), s))
def op_enumerate_codepoints(s): return list(enumerate("abc".codepoints(), s))
def op_enumerate_dict(s): return list(enumerate({"a": 1, "b": 2, "c": 3}, s))
def op_enumerate_tuple(s): return list(enumerate(("a", "b", "c"), s))
def op_rep_len_tuple_l(n): return len(("a", "b") * n)
def op_rep_len_tuple_r(n): return len(n * ("a", "b"))
def op_rep_val_str_l(n): return "ab" * n
def op_rep_val_str_r(n): return n * "ab"
def op_rep_val_bytes_l(n): return b"ab" * n
def op_rep_val_bytes_r(n): return n * b"ab"
def op_rep_val_list_l(n): return ["a", "b"] * n
def op_rep_val_list_r(n): return n * ["a", "b"]
def op_rep_val_tuple_l(n): return ("a", "b") * n
def op_rep_val_tuple_r(n): return n * ("a", "b")
`

func helperSource() string {
	var sb strings.Builder
	sb.WriteString(fixedSrc)
	names := func(m map[string]string) []string {
		var ks []string
		for k := range m {
			ks = append(ks, k)
		}
		sort.Strings(ks)
		return ks
	}
	for _, k := range names(unarySrc) {
		fmt.Fprintf(&sb, "def op_%s(x): return %s\n", k, unarySrc[k])
	}
	for _, k := range names(binarySrc) {
		fmt.Fprintf(&sb, "def op_%s(x, y): return x %s y\n", k, binarySrc[k])
	}
	for _, a := range ternaryOps {
		for _, b := range ternaryOps {
			fmt.Fprintf(&sb, "def op_t_%s_%s(x, y, z): return (x %s y) %s z\n", a, b, binarySrc[a], binarySrc[b])
		}
	}
	return sb.String()
}

type evaluator struct {
	th  *starlark.Thread
	g   starlark.StringDict
	pre starlark.StringDict
}

func newEvaluator() *evaluator {
	th := &starlark.Thread{Name: "c10"}
	pre := starlark.StringDict{"math": starlarkmath.Module}
	g, err := starlark.ExecFileOptions(&syntax.FileOptions{}, th, "c10helpers.star", helperSource(), pre)
	if err != nil {
		fw.Fatal("c10 helpers: %v", err)
	}
	return &evaluator{th: th, g: g, pre: pre}
}

// ---------------------------------------------------------------------------
// tokens <-> values

func argValue(tok string) (starlark.Value, error) {
	if tok == "" {
		return nil, fmt.Errorf("empty token")
	}
	switch tok[0] {
	case 'i':
		n, ok := new(big.Int).SetString(tok[1:], 10)
		if !ok {
			return nil, fmt.Errorf("bad int token %q", tok)
		}
		return starlark.MakeBigInt(n), nil
	case 'f':
		if tok == "fnan" {
			return starlark.Float(math.NaN()), nil
		}
		b, err := strconv.ParseUint(tok[1:], 16, 64)
		if err != nil {
			return nil, err
		}
		return starlark.Float(math.Float64frombits(b)), nil
	case 'T':
		return starlark.True, nil
	case 'F':
		return starlark.False, nil
	case 'N':
		return starlark.None, nil
	case 's':
		return starlark.String(tok[1:]), nil
	}
	return nil, fmt.Errorf("bad token %q", tok)
}

func render(v starlark.Value) string {
	switch v := v.(type) {
	case starlark.Int:
		return "i" + v.String()
	case starlark.Float:
		f := float64(v)
		if f != f {
			return "fnan"
		}
		return fmt.Sprintf("f%016x", math.Float64bits(f))
	case starlark.Bool:
		if v {
			return "T"
		}
		return "F"
	case starlark.NoneType:
		return "N"
	case starlark.String:
		return "s" + string(v)
	case starlark.Bytes:
		return "y" + string(v)
	case *starlark.List:
		var parts []string
		for i := 0; i < v.Len(); i++ {
			parts = append(parts, render(v.Index(i)))
		}
		return "[" + strings.Join(parts, ";") + "]"
	case starlark.Tuple:
		var parts []string
		for _, e := range v {
			parts = append(parts, render(e))
		}
		return "(" + strings.Join(parts, ";") + ")"
	}
	return "?" + v.Type() + ":" + v.String()
}

// eval runs one case and returns the rendered outcome ("E" for a clean
// Starlark error, "PANIC:..." for a Go panic) and, for int results, the value.
func (e *evaluator) eval(op string, args []string) (res string, val starlark.Value) {
	defer func() {
		if r := recover(); r != nil {
			res = fmt.Sprintf("PANIC:%v", r)
			val = nil
		}
	}()
	if op == "lit2" {
		// two literals in one source text: the scanner must not carry anything from one to the next
		v, err := starlark.EvalOptions(&syntax.FileOptions{}, e.th, "lit2", "["+args[0][1:]+", "+args[1][1:]+"]", nil)
		if err != nil {
			return "E", nil
		}
		return render(v), v
	}
	if strings.HasPrefix(op, "go_") {
		return e.goAPI(op, args)
	}
	if op == "lituse" {
		// the literal used as shift count, repetition count, index, key and member
		t := args[0][1:]
		n := args[1][1:]
		src := fmt.Sprintf("[1 << %[1]s, (3 << 100) >> %[1]s, -7 >> %[1]s, len(\"ab\" * %[1]s), tuple(range(50))[%[1]s], range(100, 1000, 7)[%[1]s], {%[1]s: 5}[%[2]s], %[1]s in {%[2]s: 1}, %[2]s in set([%[1]s]), list(range(50))[%[1]s], len([0] * %[1]s) + 1]", t, n)
		v, err := starlark.EvalOptions(&syntax.FileOptions{Set: true}, e.th, "lituse", src, nil)
		if err != nil {
			return "E:" + err.Error(), nil
		}
		return render(v), v
	}
	if op == "litexpr" {
		v, err := starlark.EvalOptions(&syntax.FileOptions{}, e.th, "litexpr", args[0][1:], nil)
		if err != nil {
			return "E", nil
		}
		return render(v), v
	}
	if op == "lit" {
		v, err := starlark.EvalOptions(&syntax.FileOptions{}, e.th, "lit", args[0][1:], nil)
		if err != nil {
			return "E", nil
		}
		return render(v), v
	}
	fn := e.g["op_"+op]
	if fn == nil {
		fw.Fatal("c10: unknown op %q", op)
	}
	vals := make(starlark.Tuple, len(args))
	for i, a := range args {
		v, err := argValue(a)
		if err != nil {
			fw.Fatal("c10: %v", err)
		}
		vals[i] = v
	}
	v, err := starlark.Call(e.th, fn, vals, nil)
	if err != nil {
		return "E", nil
	}
	return render(v), v
}

func judged(exp string) bool { return exp != "?" }

func accepts(exp, res string) bool {
	if exp == "?" {
		return true
	}
	for _, alt := range strings.Split(exp, "|") {
		if alt == res {
			return true
		}
	}
	return false
}

// ---------------------------------------------------------------------------
// violation keys: operation + argument classes + outcome classes

var (
	two31 = new(big.Int).Lsh(big.NewInt(1), 31)
	two63 = new(big.Int).Lsh(big.NewInt(1), 63)
)

func classInt(n *big.Int) string {
	if n.Sign() == 0 {
		return "0"
	}
	sign := "+"
	if n.Sign() < 0 {
		sign = "-"
	}
	neg31 := new(big.Int).Neg(two31)
	neg63 := new(big.Int).Neg(two63)
	switch {
	case n.Cmp(neg31) >= 0 && n.Cmp(two31) < 0:
		return sign + "int32"
	case n.Cmp(neg63) >= 0 && n.Cmp(two63) < 0:
		return sign + "int64"
	}
	return sign + "big"
}

func classTok(tok string) string {
	switch tok[0] {
	case 'i':
		n, _ := new(big.Int).SetString(tok[1:], 10)
		if n == nil {
			return "int?"
		}
		return classInt(n)
	case 'f':
		if tok == "fnan" {
			return "nan"
		}
		b, _ := strconv.ParseUint(tok[1:], 16, 64)
		f := math.Float64frombits(b)
		sign := "+"
		if math.Signbit(f) {
			sign = "-"
		}
		switch {
		case math.IsInf(f, 0):
			return sign + "inf"
		case f == 0:
			return sign + "0.0"
		case f == math.Trunc(f):
			return sign + "float-integral"
		}
		return sign + "float-fraction"
	case 'T', 'F':
		return "bool"
	case 'N':
		return "None"
	case 's':
		return "str"
	}
	return "?"
}

func classRes(r string) string {
	if r == "" {
		return "?"
	}
	switch r[0] {
	case 'E':
		return "error"
	case 'T', 'F':
		return r
	case 'i':
		return "int"
	case 'f':
		return "float"
	case 's':
		return "str"
	case 'y':
		return "bytes"
	case '[':
		if r == "[]" {
			return "list(empty)"
		}
		return "list"
	case '(':
		return "tuple"
	case 'P':
		return "panic"
	}
	return "other"
}

func tokInt(tok string) *big.Int {
	if len(tok) > 1 && tok[0] == 'i' {
		n, _ := new(big.Int).SetString(tok[1:], 10)
		return n
	}
	return nil
}

func unsigned(cl string) string { return strings.TrimLeft(cl, "+-") }

func fitsInt64(n *big.Int) bool {
	return n.Cmp(new(big.Int).Neg(two63)) >= 0 && n.Cmp(two63) < 0
}

// exactRangeLen is the mathematical length of range(a,b,c); it is used only
// to name violations (argument class), never to judge.
func exactRangeLen(a, b, c *big.Int) *big.Int {
	n := new(big.Int)
	one := big.NewInt(1)
	if c.Sign() > 0 {
		if b.Cmp(a) <= 0 {
			return n
		}
		n.Sub(b, a).Add(n, c).Sub(n, one)
		return n.Div(n, c)
	}
	if a.Cmp(b) <= 0 {
		return n
	}
	n.Sub(a, b).Sub(n, c).Sub(n, one)
	return n.Div(n, new(big.Int).Neg(c))
}

// rangeClass names the situation of range(a,b,c) with respect to machine
// integers (argument class of the violation key).
func rangeClass(a, b, c *big.Int) string {
	if a == nil || b == nil || c == nil || c.Sign() == 0 {
		return "?"
	}
	for _, p := range []*big.Int{a, b, c} {
		if !fitsInt64(p) {
			return "param-beyond-int64"
		}
	}
	span := new(big.Int).Sub(b, a)
	if span.Abs(span).Cmp(two63) >= 0 {
		return "span>=2^63"
	}
	n := exactRangeLen(a, b, c)
	end := new(big.Int).Mul(n, c)
	end.Add(end, a)
	if !fitsInt64(end) {
		return "start+len*step-beyond-int64"
	}
	return "in-int64"
}

// caseKey names a violation: operation family + argument classes (+ "panics").
// Observations of the same object are one family: len/bool/iteration/list/
// reversed/index/str of a range value are "range", the three observations of a
// slice are "range_slice".  Expected and actual values go into the message.
func caseKey(op string, args []string, exp, res string) string {
	var cls []string
	rest := args
	fam := op
	isRange := strings.HasPrefix(op, "range_") && len(args) >= 3
	if isRange {
		a, b, c := tokInt(args[0]), tokInt(args[1]), tokInt(args[2])
		rc := rangeClass(a, b, c)
		rest = args[3:]
		switch {
		case strings.HasPrefix(op, "range_slice"):
			fam = "range_slice"
			if len(rest) >= 3 && c != nil {
				if k := tokInt(rest[2]); k != nil && !fitsInt64(new(big.Int).Mul(c, k)) {
					rc += ",step*stride-beyond-int64"
				}
			}
			rest = nil
		case op == "range_eq" && len(args) == 6:
			two := []string{rc, rangeClass(tokInt(args[3]), tokInt(args[4]), tokInt(args[5]))}
			sort.Strings(two)
			rc = strings.Join(two, ",")
			rest = nil
		case op == "range_in":
			if rc == "start+len*step-beyond-int64" {
				rc = "in-int64"
			}
		default:
			fam = "range"
			rest = nil
		}
		cls = append(cls, rc)
	}
	for _, a := range rest {
		cl := classTok(a)
		if isRange || op == "round" || strings.HasPrefix(op, "enumerate") {
			cl = unsigned(cl)
			if op == "range_in" && cl == "float-integral" {
				b, _ := strconv.ParseUint(a[1:], 16, 64)
				if math.Abs(math.Float64frombits(b)) >= 1<<31 {
					cl = "float-integral>=2^31"
				}
			}
		}
		if op == "lit" || op == "lit2" || op == "lituse" {
			t := strings.TrimLeft(a[1:], "-")
			switch {
			case strings.ContainsAny(t, ".") || (strings.ContainsAny(t, "eE") && !strings.HasPrefix(t, "0x") && !strings.HasPrefix(t, "0X")):
				cl = "float-literal"
			case len(t) > 2 && t[0] == '0' && strings.ContainsRune("xXoObB", rune(t[1])):
				cl = "0" + strings.ToLower(t[1:2]) + "-literal"
				if n, ok := new(big.Int).SetString(t, 0); ok {
					cl += ":" + unsigned(classInt(n))
				}
			default:
				cl = "decimal-literal"
			}
		}
		cls = append(cls, cl)
	}
	key := fmt.Sprintf("%s(%s)", fam, strings.Join(cls, ","))
	if strings.HasPrefix(res, "PANIC") {
		key += " panics"
	}
	return key
}

// ---------------------------------------------------------------------------
// worker

type violCase struct {
	Op   string   `json:"op"`
	Args []string `json:"args"`
	Exp  string   `json:"exp"`
	Kind string   `json:"kind"`           // "oracle", "hash", "repr-disagree", "crash"
	Repr string   `json:"repr,omitempty"` // representation in which it was seen
	Expr string   `json:"starlark,omitempty"`
}

func tableFile(tier string, shard int) string {
	return filepath.Join(fw.BinDir(), fmt.Sprintf("c10-%s-%d.tsv", tier, shard))
}
func progFile(tier, mode string, shard int) string {
	return filepath.Join(fw.BinDir(), fmt.Sprintf("c10-%s-prog-%s-%d.bin", tier, mode, shard))
}

// progress is a shared file mapping holding the ordinal of the case being
// evaluated: a store per case instead of system calls, and it survives the
// death of the process.
type progress struct{ mem []byte }

func openProgress(path string) (*progress, uint32) {
	f, err := os.OpenFile(path, os.O_RDWR|os.O_CREATE, 0o644)
	if err != nil {
		fw.Fatal("c10: %v", err)
	}
	defer f.Close()
	f.Truncate(8)
	mem, err := syscall.Mmap(int(f.Fd()), 0, 8, syscall.PROT_READ|syscall.PROT_WRITE, syscall.MAP_SHARED)
	if err != nil {
		fw.Fatal("c10: mmap %s: %v", path, err)
	}
	return &progress{mem}, binary.LittleEndian.Uint32(mem)
}

func (p *progress) set(ord uint32) { binary.LittleEndian.PutUint32(p.mem, ord) }

func readProgress(path string) uint32 {
	b, err := os.ReadFile(path)
	if err != nil || len(b) < 4 {
		return 0
	}
	return binary.LittleEndian.Uint32(b)
}

func resFile(tier, mode string, shard int) string {
	return filepath.Join(fw.BinDir(), fmt.Sprintf("c10-%s-res-%s-%d.bin", tier, mode, shard))
}

const fallbackCmd = `ulimit -v 3000000; exec "$0" "$@"`

// ensureRepr re-executes the current process so that the wanted Int
// representation is in effect.
func ensureRepr(mode string) {
	have := starlark.VerifIntRepr()
	switch mode {
	case "opt":
		if have != "posix64-optimised" {
			fw.Fatal("c10: expected the optimised Int representation, have %s", have)
		}
	case "fb":
		if have == "posix64-fallback" {
			return
		}
		if os.Getenv("VERIF_C10_REEXEC") != "" {
			fw.Fatal("c10: `ulimit -v` did not select the fallback Int representation (have %s)", have)
		}
		self, err := os.Executable()
		if err != nil {
			fw.Fatal("c10: %v", err)
		}
		argv := append([]string{"bash", "-c", fallbackCmd, self}, os.Args[1:]...)
		env := append(os.Environ(), "VERIF_C10_REEXEC=1")
		if err := syscall.Exec("/bin/bash", argv, env); err != nil {
			fw.Fatal("c10: exec bash: %v", err)
		}
	case "gen":
		if have == "generic" {
			return
		}
		bin := os.Getenv("VERIF_C10_GENERIC")
		if bin == "" || os.Getenv("VERIF_C10_REEXEC") != "" {
			fw.Fatal("c10: generic representation binary not available (have %s)", have)
		}
		argv := append([]string{bin}, os.Args[1:]...)
		env := append(os.Environ(), "VERIF_C10_REEXEC=1")
		if err := syscall.Exec(bin, argv, env); err != nil {
			fw.Fatal("c10: exec %s: %v", bin, err)
		}
	}
}

func starlarkExpr(op string, args []string) string {
	lit := func(tok string) string {
		switch tok[0] {
		case 'i':
			return tok[1:]
		case 'f':
			if tok == "fnan" {
				return `float("nan")`
			}
			b, _ := strconv.ParseUint(tok[1:], 16, 64)
			f := math.Float64frombits(b)
			if math.IsInf(f, 1) {
				return `float("+inf")`
			} else if math.IsInf(f, -1) {
				return `float("-inf")`
			}
			return starlark.Float(f).String()
		case 'T':
			return "True"
		case 'F':
			return "False"
		case 'N':
			return "None"
		case 's':
			return strconv.Quote(tok[1:])
		}
		return tok
	}
	var a []string
	for _, t := range args {
		a = append(a, lit(t))
	}
	if s, ok := binarySrc[op]; ok && len(a) == 2 {
		return fmt.Sprintf("%s %s %s", a[0], s, a[1])
	}
	return fmt.Sprintf("%s(%s)", op, strings.Join(a, ", "))
}

func worker(c *fw.Ctx) *fw.Stats {
	mode := "opt"
	if len(c.Args) > 0 {
		mode = c.Args[0]
	}
	if mode == "one" {
		// single-case evaluation for Replay under another representation
		ensureRepr(c.Args[1])
		ev := newEvaluator()
		res, v := ev.eval(c.Args[2], c.Args[3:])
		h := ""
		if iv, ok := v.(starlark.Int); ok {
			hv, _ := iv.Hash()
			h = fmt.Sprint(hv)
		}
		fmt.Printf("C10ONE %s\t%s\t%s\n", starlark.VerifIntRepr(), res, h)
		return fw.NewStats()
	}
	ensureRepr(mode)
	st := fw.NewStats()
	repr := starlark.VerifIntRepr()
	st.Count("int_repr:"+repr+":workers", 1)
	ev := newEvaluator()

	f, err := os.Open(tableFile(c.Tier, c.Shard))
	if err != nil {
		fw.Fatal("c10: %v", err)
	}
	defer f.Close()
	rf, err := os.OpenFile(resFile(c.Tier, mode, c.Shard), os.O_CREATE|os.O_WRONLY|os.O_APPEND, 0o644)
	if err != nil {
		fw.Fatal("c10: %v", err)
	}
	rw := bufio.NewWriterSize(rf, 1<<16)
	defer func() { rw.Flush(); rf.Close() }()

	viols := map[string]fw.Viol{} // one (smallest) case per key
	violate := func(key, what string, vc violCase) {
		raw, _ := json.Marshal(vc)
		if old, ok := viols[key]; ok && (len(old.Case) < len(raw) || (len(old.Case) == len(raw) && bytes.Compare(old.Case, raw) <= 0)) {
			return
		}
		if len(viols) >= 400 {
			st.Count("violation_keys_dropped_over_400_per_worker", 1)
			return
		}
		viols[key] = fw.Viol{Key: key, What: what, Case: raw}
	}
	hashes := map[string]uint32{} // decimal value -> Hash() of the first result with that value
	prog, lastOrd := openProgress(progFile(c.Tier, mode, c.Shard))
	var skipThrough uint32 // a restarted worker continues after the case that killed its predecessor
	if os.Getenv("VERIF_RESUME") != "" {
		skipThrough = lastOrd
	}
	sc := bufio.NewScanner(f)
	sc.Buffer(make([]byte, 1<<20), 1<<26)
	level := ""
	levelDone := int64(0)
	expired := false
	var ord uint32
	finishLevel := func() {
		if level != "" && !expired {
			st.Count("level_done:"+level, 1)
		}
	}
	var rec [12]byte
	for sc.Scan() {
		line := sc.Text()
		if strings.HasPrefix(line, "#level ") {
			finishLevel()
			level = line[7:]
			levelDone = 0
			if c.Expired() {
				expired = true
			}
			continue
		}
		ord++
		if expired {
			st.Count("level_cut:"+level, 1)
			continue
		}
		if levelDone&1023 == 1023 && c.Expired() {
			expired = true
			st.Count("level_cut:"+level, 1)
			continue
		}
		levelDone++
		parts := strings.Split(line, "\t")
		if len(parts) != 3 {
			fw.Fatal("c10: bad table line %q", line)
		}
		op, exp := parts[0], parts[2]
		var args []string
		if parts[1] != "" {
			args = strings.Split(parts[1], ",")
		}
		// A case can kill the process only if the implementation is badly broken
		// (e.g. a corrupted small-int pointer): the frame then restarts the shard.
		// The frame is told once per block; the exact case is in the shared mapping.
		if ord&255 == 1 || ord == skipThrough+1 {
			k := fmt.Sprintf("block\t%s\t%d\t%d", mode, c.Shard, ord>>8)
			if !c.Risky(k) {
				c.Risky(k)
			}
		}
		if ord <= skipThrough {
			continue
		}
		prog.set(ord)
		res, val := ev.eval(op, args)
		sampled := level == "9-sampled-extra"
		if sampled {
			st.Count("sampled_extra", 1)
		} else {
			st.Evals++
		}
		st.Count("evals:"+repr, 1)
		h := fnv.New64a()
		h.Write([]byte(res))
		binary.LittleEndian.PutUint32(rec[0:4], ord)
		binary.LittleEndian.PutUint64(rec[4:12], h.Sum64())
		rw.Write(rec[:])

		ok := accepts(exp, res)
		if judged(exp) {
			if mode == "opt" && !sampled {
				st.Nontrivial++
			}
		} else {
			st.Count("unjudged(spec silent)", 1)
		}
		if mode == "opt" {
			st.Outcome(op + ":" + classRes(res))
			if op == "truediv" && strings.Contains(exp, "|") && !strings.Contains(exp, "E") && len(args) == 2 && args[0][0] == 'i' && args[1][0] == 'i' {
				alts := strings.Split(exp, "|")
				if res == alts[0] {
					st.Count("int/int: convert-then-divide differs from correctly rounded quotient; implementation converts first", 1)
				} else if len(alts) > 1 && res == alts[1] {
					st.Count("int/int: convert-then-divide differs from correctly rounded quotient; implementation rounds once", 1)
				}
			}
			if ord%9973 == 1 {
				st.Sample(map[string]any{"level": level, "case": starlarkExpr(op, args), "expected": exp, "got": res})
			}
		}
		if !ok {
			violate(caseKey(op, args, exp, res),
				fmt.Sprintf("%s: implementation (%s) gave %s, specification requires %s", starlarkExpr(op, args), repr, res, exp),
				violCase{Op: op, Args: args, Exp: exp, Kind: "oracle", Repr: mode, Expr: starlarkExpr(op, args)})
		}
		// equal ints reached through different operations must be the same value in every
		// respect: same Hash (the representation must be canonical)
		if iv, isInt := val.(starlark.Int); isInt {
			hv, _ := iv.Hash()
			dec := iv.String()
			if old, seen := hashes[dec]; seen {
				st.Count("int_result_hash_compared", 1)
				if old != hv {
					violate("hash-of-equal-int-results-differs "+op+" ("+classTok("i"+dec)+")",
						fmt.Sprintf("%s = %s has Hash %d but the same value computed earlier had Hash %d (non-canonical representation, %s)", starlarkExpr(op, args), dec, hv, old, repr),
						violCase{Op: op, Args: args, Exp: exp, Kind: "hash", Repr: mode, Expr: starlarkExpr(op, args)})
				}
			} else {
				hashes[dec] = hv
			}
		}
	}
	finishLevel()
	prog.set(0)
	var keys []string
	for k := range viols {
		keys = append(keys, k)
	}
	sort.Strings(keys)
	for _, k := range keys {
		st.Viols = append(st.Viols, viols[k])
	}
	return st
}

// ---------------------------------------------------------------------------
// coordinator

func engineDir() string {
	_, file, _, _ := runtime.Caller(0)
	return filepath.Dir(filepath.Dir(filepath.Dir(file)))
}

func starlarkDir() string {
	if bi, ok := debug.ReadBuildInfo(); ok {
		for _, d := range bi.Deps {
			if d.Path == "go.starlark.net" && d.Replace != nil {
				return d.Replace.Path
			}
		}
	}
	return "/repo"
}

// buildGeneric builds this binary again with int_generic.go selected instead
// of int_posix64.go (build overlay; nothing is written into the repository).
func buildGeneric() (string, error) {
	dir := starlarkDir()
	tmp, err := os.MkdirTemp(fw.BinDir(), "c10-generic-")
	if err != nil {
		return "", err
	}
	strip := func(name string) (string, error) {
		b, err := os.ReadFile(filepath.Join(dir, "starlark", name))
		if err != nil {
			return "", err
		}
		lines := strings.Split(string(b), "\n")
		for i, l := range lines {
			if strings.HasPrefix(l, "//go:build") {
				if strings.Contains(name, "verif") {
					lines[i] = "//go:build verif"
				} else {
					lines[i] = ""
				}
			}
		}
		p := filepath.Join(tmp, name)
		return p, os.WriteFile(p, []byte(strings.Join(lines, "\n")), 0o644)
	}
	empty := filepath.Join(tmp, "empty.go")
	os.WriteFile(empty, []byte("package starlark\n"), 0o644)
	g1, err := strip("int_generic.go")
	if err != nil {
		return "", err
	}
	g2, err := strip("verif_int_generic.go")
	if err != nil {
		return "", err
	}
	ov := map[string]any{"Replace": map[string]string{
		filepath.Join(dir, "starlark", "int_posix64.go"):       empty,
		filepath.Join(dir, "starlark", "verif_int_posix64.go"): empty,
		filepath.Join(dir, "starlark", "int_generic.go"):       g1,
		filepath.Join(dir, "starlark", "verif_int_generic.go"): g2,
	}}
	ob, _ := json.Marshal(ov)
	ovp := filepath.Join(tmp, "overlay.json")
	os.WriteFile(ovp, ob, 0o644)
	out := filepath.Join(tmp, "vcheck-generic")
	pkg := "./cmd/dev/c10"
	if _, err := os.Stat(filepath.Join(engineDir(), "cmd", "vcheck")); err == nil {
		if _, err := os.Stat(filepath.Join(engineDir(), "cmd", "dev", "c10")); err != nil {
			pkg = "./cmd/vcheck"
		}
	}
	cmd := exec.Command("go", "build", "-tags", "verif", "-overlay", ovp, "-o", out, pkg)
	cmd.Dir = engineDir()
	cmd.Env = append(os.Environ(), "GOFLAGS=-mod=mod", "GOPROXY=off")
	if b, err := cmd.CombinedOutput(); err != nil {
		return tmp, fmt.Errorf("go build -overlay: %v\n%s", err, b)
	}
	return tmp, nil
}

// pythonPath avoids version-manager shims (seconds of start-up each) when the
// system interpreter exists.
func pythonPath() string {
	for _, p := range []string{"/usr/bin/python3", "/usr/local/bin/python3"} {
		if _, err := os.Stat(p); err == nil {
			return p
		}
	}
	return "python3"
}

func generateTable(c *fw.Ctx) map[string]int64 {
	script := filepath.Join(fw.EngineDir(), "internal", "c10", "oracle.py")
	const nparts = 4
	var wg sync.WaitGroup
	errs := make([]error, nparts)
	outs := make([][]byte, nparts)
	for p := 0; p < nparts; p++ {
		wg.Add(1)
		go func(p int) {
			defer wg.Done()
			cmd := exec.Command(pythonPath(), script, c.Tier, fw.BinDir(), "16", strconv.Itoa(p), strconv.Itoa(nparts))
			outs[p], errs[p] = cmd.CombinedOutput()
		}(p)
	}
	wg.Wait()
	for p, err := range errs {
		if err != nil {
			fw.Fatal("c10 oracle part %d: %v\n%s", p, err, outs[p])
		}
	}
	meta := map[string]int64{}
	b, err := os.ReadFile(filepath.Join(fw.BinDir(), "c10-"+c.Tier+"-meta.txt"))
	if err != nil {
		fw.Fatal("c10: %v", err)
	}
	for _, l := range strings.Split(string(b), "\n") {
		p := strings.Split(l, "\t")
		switch {
		case len(p) == 2:
			n, _ := strconv.ParseInt(p[1], 10, 64)
			meta[p[0]] = n
		case len(p) == 3 && p[0] == "level":
			n, _ := strconv.ParseInt(p[2], 10, 64)
			meta["level:"+p[1]] = n
		}
	}
	return meta
}

func readRes(path string) map[uint32]uint64 {
	b, err := os.ReadFile(path)
	if err != nil {
		return nil
	}
	m := make(map[uint32]uint64, len(b)/12)
	for i := 0; i+12 <= len(b); i += 12 {
		m[binary.LittleEndian.Uint32(b[i:])] = binary.LittleEndian.Uint64(b[i+4:])
	}
	return m
}

func tableLine(tier string, shard int, ord uint32) (op string, args []string, exp string, ok bool) {
	f, err := os.Open(tableFile(tier, shard))
	if err != nil {
		return
	}
	defer f.Close()
	sc := bufio.NewScanner(f)
	sc.Buffer(make([]byte, 1<<20), 1<<26)
	var n uint32
	for sc.Scan() {
		line := sc.Text()
		if strings.HasPrefix(line, "#") {
			continue
		}
		n++
		if n == ord {
			p := strings.Split(line, "\t")
			if len(p) != 3 {
				return
			}
			if p[1] != "" {
				args = strings.Split(p[1], ",")
			}
			return p[0], args, p[2], true
		}
	}
	return
}

func run(c *fw.Ctx) *fw.Stats {
	t0 := time.Now()
	phase := func(name string) {
		if os.Getenv("VERIF_C10_TIMING") != "" {
			fmt.Fprintf(os.Stderr, "c10 timing: %s at %.1fs\n", name, time.Since(t0).Seconds())
		}
	}
	meta := generateTable(c)
	phase("table generated")
	modes := []string{"opt", "fb"}
	var genTmp string
	total := fw.NewStats()
	if c.Thorough() {
		tmp, err := buildGeneric()
		genTmp = tmp
		if err != nil {
			total.Notes = append(total.Notes, "int_generic.go representation not run: "+err.Error())
		} else {
			os.Setenv("VERIF_C10_GENERIC", filepath.Join(tmp, "vcheck-generic"))
			modes = append(modes, "gen")
		}
	}
	for _, m := range modes {
		for k := 0; k < 16; k++ {
			os.Remove(resFile(c.Tier, m, k))
			os.Remove(progFile(c.Tier, m, k))
		}
	}
	onCrash := func(mode string) func(ci fw.CrashInfo, s *fw.Stats) {
		return func(ci fw.CrashInfo, s *fw.Stats) {
			ord := readProgress(progFile(c.Tier, mode, ci.Shard))
			op, args, exp, ok := tableLine(c.Tier, ci.Shard, ord)
			if !ok {
				s.Violate("worker-death", fmt.Sprintf("%s worker %d died outside a case (%s): %s", mode, ci.Shard, ci.Key, firstLines(ci.Stderr, 6)), nil)
				return
			}
			s.Violate(caseKey(op, args, exp, "PANIC")+" (process death)",
				fmt.Sprintf("process death while evaluating %s (%s representation): %s", starlarkExpr(op, args), mode, firstLines(ci.Stderr, 6)),
				violCase{Op: op, Args: args, Exp: exp, Kind: "crash", Repr: mode, Expr: starlarkExpr(op, args)})
		}
	}
	var wg sync.WaitGroup
	var mu sync.Mutex
	for _, m := range modes {
		wg.Add(1)
		go func(m string) {
			defer wg.Done()
			s := c.Sharded(16, onCrash(m), m)
			mu.Lock()
			total.Merge(s)
			mu.Unlock()
		}(m)
	}
	wg.Wait()
	phase("workers done")

	// the representations must agree with each other case by case
	var disagreements int64
	for k := 0; k < 16; k++ {
		base := readRes(resFile(c.Tier, "opt", k))
		for _, m := range modes[1:] {
			other := readRes(resFile(c.Tier, m, k))
			var ords []uint32
			for ord, h := range base {
				if h2, ok := other[ord]; ok {
					total.Count("cross_representation_compared:opt-vs-"+m, 1)
					if h2 != h {
						ords = append(ords, ord)
					}
				}
			}
			sort.Slice(ords, func(i, j int) bool { return ords[i] < ords[j] })
			for _, ord := range ords {
				disagreements++
				if disagreements > 40 {
					break
				}
				op, args, exp, ok := tableLine(c.Tier, k, ord)
				if !ok {
					continue
				}
				total.Violate("representations-disagree "+caseKey(op, args, "", ""),
					fmt.Sprintf("%s gives different results under the optimised and the %s Int representation", starlarkExpr(op, args), m),
					violCase{Op: op, Args: args, Exp: exp, Kind: "repr-disagree", Repr: m, Expr: starlarkExpr(op, args)})
			}
		}
	}
	total.Count("cross_representation_disagreements", disagreements)
	phase("cross comparison done")

	// levels: complete only if every worker of every representation completed it
	var levelNames []string
	for k := range meta {
		if strings.HasPrefix(k, "level:") {
			levelNames = append(levelNames, k[6:])
		}
	}
	sort.Strings(levelNames)
	want := int64(16 * len(modes))
	for _, l := range levelNames {
		done := total.Counters["level_done:"+l]
		delete(total.Counters, "level_done:"+l)
		cut := total.Counters["level_cut:"+l]
		delete(total.Counters, "level_cut:"+l)
		desc := fmt.Sprintf("%s(%d cases x %d representations)", l, meta["level:"+l], len(modes))
		if done == want && cut == 0 {
			total.Levels = append(total.Levels, desc)
		} else {
			total.Cut = append(total.Cut, fmt.Sprintf("%s: %d evaluations not run", desc, cut))
		}
	}
	total.Count("pool_ints", meta["ints"])
	total.Count("pool_floats", meta["floats"])
	total.Count("table_cases", meta["total"])

	// deterministic choice of the representative case per key; bounded number of keys
	sort.SliceStable(total.Viols, func(i, j int) bool {
		a, b := total.Viols[i], total.Viols[j]
		if a.Key != b.Key {
			return a.Key < b.Key
		}
		if len(a.Case) != len(b.Case) {
			return len(a.Case) < len(b.Case)
		}
		return bytes.Compare(a.Case, b.Case) < 0
	})
	if dump := os.Getenv("VERIF_C10_DUMP"); dump != "" {
		// development aid: list every violation key without replaying
		var sb strings.Builder
		last := ""
		for _, v := range total.Viols {
			if v.Key != last {
				fmt.Fprintf(&sb, "%s\t%s\n", v.Key, v.What)
				last = v.Key
			}
		}
		os.WriteFile(dump, []byte(sb.String()), 0o644)
		total.Viols = nil
	}
	var kept []fw.Viol
	seen := map[string]bool{}
	for _, v := range total.Viols {
		if seen[v.Key] {
			continue
		}
		seen[v.Key] = true
		if len(kept) >= 60 {
			total.Count("violation_keys_not_listed_over_60", 1)
			continue
		}
		kept = append(kept, v)
	}
	total.Viols = kept

	// scratch files
	for k := 0; k < 16; k++ {
		os.Remove(tableFile(c.Tier, k))
		for _, m := range modes {
			os.Remove(resFile(c.Tier, m, k))
			os.Remove(progFile(c.Tier, m, k))
		}
	}
	os.Remove(filepath.Join(fw.BinDir(), "c10-"+c.Tier+"-meta.txt"))
	if genTmp != "" {
		os.RemoveAll(genTmp)
	}
	return total
}

func firstLines(s string, n int) string {
	l := strings.Split(s, "\n")
	if len(l) > n {
		l = l[:n]
	}
	return strings.Join(l, " | ")
}

// ---------------------------------------------------------------------------
// replay

func evalOther(mode, op string, args []string) (repr, res, hash string, err error) {
	self, e := os.Executable()
	if e != nil {
		return "", "", "", e
	}
	argv := append([]string{"worker", "C10", "quick", "0", "1", "one", mode, op}, args...)
	cmd := exec.Command(self, argv...)
	cmd.Env = os.Environ()
	out, e := cmd.Output()
	for _, l := range strings.Split(string(out), "\n") {
		if strings.HasPrefix(l, "C10ONE ") {
			p := strings.Split(l[7:], "\t")
			if len(p) == 3 {
				return p[0], p[1], p[2], nil
			}
		}
	}
	return "", "", "", fmt.Errorf("no result from the %s process: %v", mode, e)
}

func replay(c *fw.Ctx, raw json.RawMessage) []fw.Viol {
	var vc violCase
	if err := json.Unmarshal(raw, &vc); err != nil {
		fw.Fatal("bad case: %v", err)
	}
	var out []fw.Viol
	if vc.Kind == "crash" {
		// re-execute in this process: if the implementation still crashes, so does the replay
		ev := newEvaluator()
		res, _ := ev.eval(vc.Op, vc.Args)
		if !accepts(vc.Exp, res) {
			out = append(out, fw.Viol{Key: caseKey(vc.Op, vc.Args, vc.Exp, res), What: "no crash now, but " + res + " where " + vc.Exp + " is required"})
		}
		return out
	}
	type obs struct{ repr, res, hash string }
	var all []obs
	var val starlark.Value
	inProcess := func() {
		ev := newEvaluator()
		res, v := ev.eval(vc.Op, vc.Args)
		val = v
		h := ""
		if iv, ok := v.(starlark.Int); ok {
			hv, _ := iv.Hash()
			h = fmt.Sprint(hv)
		}
		all = append(all, obs{starlark.VerifIntRepr(), res, h})
	}
	other := func() {
		r, s, hh, err := evalOther("fb", vc.Op, vc.Args)
		if err != nil {
			fw.Fatal("c10 replay: %v", err)
		}
		all = append(all, obs{r, s, hh})
	}
	shows := func() *fw.Viol {
		o := all[len(all)-1]
		if vc.Kind == "oracle" && !accepts(vc.Exp, o.res) {
			return &fw.Viol{Key: caseKey(vc.Op, vc.Args, vc.Exp, o.res),
				What: fmt.Sprintf("%s: implementation (%s) gave %s, specification requires %s", vc.Expr, o.repr, o.res, vc.Exp)}
		}
		return nil
	}
	// first the representation in which the case was seen, then the other one
	steps := []func(){inProcess, other}
	if vc.Repr == "fb" && vc.Kind == "oracle" {
		steps = []func(){other, inProcess}
	}
	if vc.Kind == "hash" {
		steps = []func(){inProcess}
	}
	for _, f := range steps {
		f()
		if v := shows(); v != nil {
			return []fw.Viol{*v}
		}
	}
	switch vc.Kind {
	case "repr-disagree":
		if all[0].res != all[1].res {
			out = append(out, fw.Viol{Key: "representations-disagree " + caseKey(vc.Op, vc.Args, "", ""),
				What: fmt.Sprintf("%s: %s gives %s, %s gives %s", vc.Expr, all[0].repr, all[0].res, all[1].repr, all[1].res)})
		}
	case "hash":
		// the same value built canonically must hash alike
		if iv, ok := val.(starlark.Int); ok {
			canon := starlark.MakeBigInt(iv.BigInt())
			h1, _ := iv.Hash()
			h2, _ := canon.Hash()
			if h1 != h2 {
				out = append(out, fw.Viol{Key: "hash-of-equal-int-results-differs " + vc.Op + " (" + classTok("i"+iv.String()) + ")",
					What: fmt.Sprintf("%s = %s has Hash %d, the canonical value has Hash %d", vc.Expr, iv, h1, h2)})
			}
		}
	}
	return out
}

func init() {
	fw.Register(&fw.Prop{
		ID:    "C10",
		Level: "exploration",
		Rule: "full cross product of a boundary pool (93 ints: 0,±1,±2,±3,±7,±2^k,±2^k±1 for k in {15,30,31,32,33,52,53,54,62,63,64,65,127,200} [thorough: 189 ints, 30 exponents up to 1024]; " +
			"39 floats [thorough 63]: ±0, min subnormal, min normal, halves, 2^31±0.5, 2^53 neighbourhood, 2^63, 2^64, ±1e308, ±inf, NaN) under every unary and binary numeric operator (+ - * / // % & | ^ ~ << >> and the six comparisons, plus the // % law), " +
			"int()/float()/bool()/abs()/str/repr/%s %r %d %i %x %X %o, int and float literals through the scanner (4 int bases), int(s, base) for base 0,2..36 in several spellings, shift counts 0..69 and around 128..2^31, bool operands; " +
			"range over 18x18x10 [thorough 27x27x16] boundary parameters with len/bool/str/iteration/list/reversed/16 indices/~35 membership probes incl. floats/21 slices (len, first elements, last), range equality on ~490 [thorough 567] ranges pairwise; " +
			"enumerate start, repetition counts for str/bytes/list/tuple on both sides, math.floor/ceil/round; thorough: (a op b) op c over 30 values x 8x8 operators; seeded random ints up to 2^200 as sampled_extra (not counted); " +
			"every case is evaluated by the real interpreter (pre-compiled one-line Starlark functions) under each Int representation (optimised, ulimit -v fallback, thorough: int_generic.go through a build overlay), compared with the Python 3 oracle (int, fractions.Fraction, range) and across representations; " +
			"non-trivial = case whose result the specification defines (everything except the '?' cases counted under unjudged)",
		Run: run, Worker: worker, Replay: replay,
		Assumptions: []string{
			"operator results must be exact; for built-ins (range, enumerate, len, repetition, math.*) a failure is accepted and only a wrong value is a violation",
			"float // is floor(x / y) and float % the remainder of floored division as doc/spec.md defines them (not Python's fmod-based variants); the sign of a zero remainder and x % ±inf are not judged",
			"int / int: either float(x)/float(y) or the correctly rounded exact quotient is accepted (the spec does not say which)",
			"left shift: counts < 512 must be exact, counts >= 512 may fail (spec: an implementation may limit the count); right shift counts >= 2^31 may fail; a wrong value never passes",
			"comparisons involving NaN are not judged here (doc/spec.md says unordered, implementation and tests order NaN last; C11 checks coherence)",
			"upper-case digits/prefixes in int(s, base) may be refused but not misread; str/repr of floats belongs to C15",
			"repetition counts between 2^19 and 2^30 are not run (hundreds of MB per case)",
			"fallback Int representation is selected by running workers under `ulimit -v 3000000` (verified through starlark.VerifIntRepr and counted in int_repr:* counters)",
		},
		BudgetQuick: 75, BudgetThorough: 1200,
	})
}

// goAPI: the exported conversions between Starlark numbers and Go numbers.
// Each result is rendered through big.Int / the float's bits, so that the
// rendering does not use the code under test.
// goRangeFirst3: the first three elements of range(a, b, c) (sliced [i:j:k] if six
// more arguments are given) as the Go host sees them: through the push iterator
// starlark.Elements (leaving the loop early), through Iterate/Next, and through Index.
func (e *evaluator) goRangeFirst3(args []string) (string, starlark.Value) {
	var vals starlark.Tuple
	for _, a := range args {
		v, err := argValue(a)
		if err != nil {
			fw.Fatal("c10: %v", err)
		}
		vals = append(vals, v)
	}
	r, err := starlark.Call(e.th, starlark.Universe["range"], vals[:3], nil)
	if err != nil {
		return "E", nil
	}
	if len(vals) == 6 {
		sl, ok := r.(starlark.Sliceable)
		if !ok {
			return "srange is not Sliceable", nil
		}
		// resolve the slice the way the interpreter does: through Starlark
		fn := e.g["op_range_slice"]
		if fn == nil {
			fw.Fatal("c10: helper op_range_slice missing")
		}
		_ = sl
		r, err = starlark.Call(e.th, fn, vals, nil)
		if err != nil {
			return "E", nil
		}
	}
	it, ok := r.(starlark.Iterable)
	if !ok {
		return "snot iterable", nil
	}
	var viaElements, viaNext, viaIndex []starlark.Value
	for x := range starlark.Elements(it) {
		viaElements = append(viaElements, x)
		if len(viaElements) == 3 {
			break
		}
	}
	iter := it.Iterate()
	var x starlark.Value
	for len(viaNext) < 3 && iter.Next(&x) {
		viaNext = append(viaNext, x)
	}
	iter.Done()
	if ix, ok := r.(starlark.Indexable); ok {
		for i := 0; i < 3 && i < ix.Len(); i++ {
			viaIndex = append(viaIndex, ix.Index(i))
		}
	}
	a, b, c := render(starlark.NewList(viaElements)), render(starlark.NewList(viaNext)), render(starlark.NewList(viaIndex))
	if a != b || b != c {
		return fmt.Sprintf("sElements %s, Iterate %s, Index %s", a, b, c), nil
	}
	return a, nil
}

func (e *evaluator) goAPI(op string, args []string) (string, starlark.Value) {
	if op == "go_range_first3" || op == "go_range_slice_first3" {
		return e.goRangeFirst3(args)
	}
	x, err := argValue(args[0])
	if err != nil {
		fw.Fatal("c10: %v", err)
	}
	bigS := func(b *big.Int) string { return "i" + b.String() }
	fl := func(f float64) string {
		if f != f {
			return "fnan"
		}
		return fmt.Sprintf("f%016x", math.Float64bits(f))
	}
	switch op {
	case "go_asint":
		var err error
		var got *big.Int
		switch args[1][1:] {
		case "int":
			var v int
			err, got = starlark.AsInt(x, &v), big.NewInt(int64(v))
		case "int8":
			var v int8
			err, got = starlark.AsInt(x, &v), big.NewInt(int64(v))
		case "int16":
			var v int16
			err, got = starlark.AsInt(x, &v), big.NewInt(int64(v))
		case "int32":
			var v int32
			err, got = starlark.AsInt(x, &v), big.NewInt(int64(v))
		case "int64":
			var v int64
			err, got = starlark.AsInt(x, &v), big.NewInt(v)
		case "uint":
			var v uint
			err, got = starlark.AsInt(x, &v), new(big.Int).SetUint64(uint64(v))
		case "uint8":
			var v uint8
			err, got = starlark.AsInt(x, &v), new(big.Int).SetUint64(uint64(v))
		case "uint16":
			var v uint16
			err, got = starlark.AsInt(x, &v), new(big.Int).SetUint64(uint64(v))
		case "uint32":
			var v uint32
			err, got = starlark.AsInt(x, &v), new(big.Int).SetUint64(uint64(v))
		case "uint64":
			var v uint64
			err, got = starlark.AsInt(x, &v), new(big.Int).SetUint64(v)
		case "uintptr":
			var v uintptr
			err, got = starlark.AsInt(x, &v), new(big.Int).SetUint64(uint64(v))
		default:
			fw.Fatal("c10: go_asint type %q", args[1])
		}
		if err != nil {
			return "E", nil
		}
		return bigS(got), nil
	case "go_asint32":
		v, err := starlark.AsInt32(x)
		if err != nil {
			return "E", nil
		}
		return bigS(big.NewInt(int64(v))), nil
	case "go_numbertoint":
		v, err := starlark.NumberToInt(x)
		if err != nil {
			return "E", nil
		}
		return bigS(v.BigInt()), v
	case "go_asfloat":
		f, ok := starlark.AsFloat(x)
		if !ok {
			return "E", nil
		}
		return fl(f), nil
	}
	xi, ok := x.(starlark.Int)
	if !ok {
		return "E", nil
	}
	switch op {
	case "go_int64":
		v, ok := xi.Int64()
		if !ok {
			return "E", nil
		}
		return bigS(big.NewInt(v)), nil
	case "go_uint64":
		v, ok := xi.Uint64()
		if !ok {
			return "E", nil
		}
		return bigS(new(big.Int).SetUint64(v)), nil
	case "go_float":
		return fl(float64(xi.Float())), nil
	case "go_sign":
		return bigS(big.NewInt(int64(xi.Sign()))), nil
	case "go_roundtrip":
		// BigInt returns a copy the caller may change; Make* of the Go value gives an equal Int with the same hash
		b := xi.BigInt()
		saved := new(big.Int).Set(b)
		b.Add(b, big.NewInt(12345))
		if xi.BigInt().Cmp(saved) != 0 {
			return "sBigInt() aliases the Int: changing the result changed the Int", nil
		}
		cands := []starlark.Int{starlark.MakeBigInt(saved)}
		if saved.IsInt64() {
			cands = append(cands, starlark.MakeInt64(saved.Int64()))
			if int64(int(saved.Int64())) == saved.Int64() {
				cands = append(cands, starlark.MakeInt(int(saved.Int64())))
			}
		}
		if saved.IsUint64() {
			cands = append(cands, starlark.MakeUint64(saved.Uint64()), starlark.MakeUint(uint(saved.Uint64())))
		}
		h0, _ := xi.Hash()
		for i, c := range cands {
			eq, err := starlark.Equal(xi, c)
			h, _ := c.Hash()
			if err != nil || !eq || h != h0 || c.String() != saved.String() {
				return fmt.Sprintf("sconstructor %d gives %s (equal %v, hash %d vs %d) for %s", i, c.String(), eq, h, h0, saved), nil
			}
		}
		return bigS(saved), nil
	}
	fw.Fatal("c10: unknown op %q", op)
	return "", nil
}
