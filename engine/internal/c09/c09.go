// Package c09 decides C09: static rules and dialect options are enforced
// before and during execution.
//
// Shape E.  Part 1: base programs (a chain of def/for/if/else/while
// containers around a leaf block using every expression and simple-statement
// form) x one planted construct (rule-breaking or legal) at every statement
// position or every r-value expression position x all 64 FileOptions vectors.
// The oracle is a static checker of our own (ref.go) that returns the set of
// offending constructs; the real implementation must reject iff that set is
// non-empty, report its first error inside one of those constructs, run no
// code when it rejects (the first statement of every program is a probe), and
// compile and start every program it accepts.  Part 2: dynamic recursion over
// all small call graphs (rec.go).
package c09

import (
	"encoding/json"
	"fmt"
	"os"
	"runtime"
	"runtime/debug"
	"runtime/pprof"
	"sort"
	"strings"
	"time"

	"go.starlark.net/resolve"
	"go.starlark.net/starlark"
	"go.starlark.net/syntax"

	"verif/internal/fw"
)

// ---------------------------------------------------------------------------
// running the real implementation

type host struct {
	probes int
	ticks  map[int64]bool
	trace  []int
	pre    starlark.StringDict
	th     *starlark.Thread
}

var loadable = starlark.StringDict{
	"L0": starlark.MakeInt(0), "Lz": starlark.MakeInt(7), "G0": starlark.MakeInt(9),
}

func newHost() *host {
	h := &host{ticks: map[int64]bool{}}
	h.pre = starlark.StringDict{
		"probe": starlark.NewBuiltin("probe", func(*starlark.Thread, *starlark.Builtin, starlark.Tuple, []starlark.Tuple) (starlark.Value, error) {
			h.probes++
			return starlark.None, nil
		}),
		"ok": starlark.NewBuiltin("ok", func(*starlark.Thread, *starlark.Builtin, starlark.Tuple, []starlark.Tuple) (starlark.Value, error) {
			return starlark.MakeInt(1), nil
		}),
		// tick(k) is true on every odd call with the same k: a while loop
		// guarded by it runs its body once each time it is reached.
		"tick": starlark.NewBuiltin("tick", func(_ *starlark.Thread, _ *starlark.Builtin, args starlark.Tuple, _ []starlark.Tuple) (starlark.Value, error) {
			k, _ := args[0].(starlark.Int).Int64()
			h.ticks[k] = !h.ticks[k]
			return starlark.Bool(h.ticks[k]), nil
		}),
		// enter(i) records that function i of a call graph was entered.
		"enter": starlark.NewBuiltin("enter", func(_ *starlark.Thread, _ *starlark.Builtin, args starlark.Tuple, _ []starlark.Tuple) (starlark.Value, error) {
			k, _ := args[0].(starlark.Int).Int64()
			h.trace = append(h.trace, int(k))
			return starlark.None, nil
		}),
	}
	h.th = &starlark.Thread{Name: "c09", Load: func(*starlark.Thread, string) (starlark.StringDict, error) { return loadable, nil }}
	h.th.SetMaxExecutionSteps(2_000_000)
	return h
}

var predeclaredNames = map[string]bool{"probe": true, "ok": true, "tick": true, "enter": true}

type prodResult struct {
	Static    bool
	Parser    bool
	Line, Col int
	Msg       string
	Runtime   string
	Panic     string
	Probes    int
	Trace     []int
}

func fileOptions(o Opts) *syntax.FileOptions {
	return &syntax.FileOptions{Set: o.Set, While: o.While, TopLevelControl: o.TopLevelControl,
		GlobalReassign: o.GlobalReassign, LoadBindsGlobally: o.LoadBindsGlobally, Recursion: o.Recursion}
}

func runProd(text string, o Opts) (r prodResult) {
	h := newHost()
	defer func() {
		if p := recover(); p != nil {
			r.Panic = fmt.Sprint(p)
		}
		r.Probes = h.probes
		r.Trace = h.trace
	}()
	_, err := starlark.ExecFileOptions(fileOptions(o), h.th, "p.star", text, h.pre)
	switch e := err.(type) {
	case nil:
	case syntax.Error:
		r.Static, r.Parser, r.Line, r.Col, r.Msg = true, true, int(e.Pos.Line), int(e.Pos.Col), e.Msg
	case resolve.ErrorList:
		r.Static, r.Line, r.Col, r.Msg = true, int(e[0].Pos.Line), int(e[0].Pos.Col), e[0].Msg
	case resolve.Error:
		r.Static, r.Line, r.Col, r.Msg = true, int(e.Pos.Line), int(e.Pos.Col), e.Msg
	default:
		r.Runtime = err.Error()
	}
	return r
}

// runProdHostCall executes text (which only defines functions) and then has
// the HOST call the global function fn with one int argument on a fresh
// thread, whose call stack is empty: the callee is the outermost frame.
func runProdHostCall(text string, o Opts, fn string, arg int) (r prodResult) {
	h := newHost()
	defer func() {
		if p := recover(); p != nil {
			r.Panic = fmt.Sprint(p)
		}
		r.Probes = h.probes
		r.Trace = h.trace
	}()
	g, err := starlark.ExecFileOptions(fileOptions(o), h.th, "p.star", text, h.pre)
	if err == nil {
		th := &starlark.Thread{Name: "c09-host-call"}
		th.SetMaxExecutionSteps(2_000_000)
		_, err = starlark.Call(th, g[fn], starlark.Tuple{starlark.MakeInt(arg)}, nil)
	}
	switch e := err.(type) {
	case nil:
	case syntax.Error:
		r.Static, r.Parser, r.Line, r.Col, r.Msg = true, true, int(e.Pos.Line), int(e.Pos.Col), e.Msg
	case resolve.ErrorList:
		r.Static, r.Line, r.Col, r.Msg = true, int(e[0].Pos.Line), int(e[0].Pos.Col), e[0].Msg
	case resolve.Error:
		r.Static, r.Line, r.Col, r.Msg = true, int(e.Pos.Line), int(e.Pos.Col), e.Msg
	default:
		r.Runtime = err.Error()
	}
	return r
}

// runProdTwoInstances compiles text once and initialises the program twice
// (two module instances A and B that share every function code); peer(name)
// gives each instance the other one's global; the host then calls A's fn(arg).
func runProdTwoInstances(text string, o Opts, fn string, arg int) (r prodResult) {
	h := newHost()
	defer func() {
		if p := recover(); p != nil {
			r.Panic = fmt.Sprint(p)
		}
		r.Probes = h.probes
		r.Trace = h.trace
	}()
	var inst [2]starlark.StringDict
	mkPre := func(self int) starlark.StringDict {
		pre := starlark.StringDict{}
		for k, v := range h.pre {
			pre[k] = v
		}
		pre["peer"] = starlark.NewBuiltin("peer", func(_ *starlark.Thread, _ *starlark.Builtin, args starlark.Tuple, _ []starlark.Tuple) (starlark.Value, error) {
			name, _ := starlark.AsString(args[0])
			v := inst[1-self][name]
			if v == nil {
				return nil, fmt.Errorf("peer: no %s", name)
			}
			return v, nil
		})
		return pre
	}
	_, prog, err := starlark.SourceProgramOptions(fileOptions(o), "p.star", text, func(name string) bool { return name == "peer" || h.pre.Has(name) })
	if err == nil {
		for i := 0; i < 2 && err == nil; i++ {
			inst[i], err = prog.Init(h.th, mkPre(i))
		}
	}
	if err == nil {
		th := &starlark.Thread{Name: "c09-two-instances"}
		th.SetMaxExecutionSteps(2_000_000)
		_, err = starlark.Call(th, inst[0][fn], starlark.Tuple{starlark.MakeInt(arg)}, nil)
	}
	switch e := err.(type) {
	case nil:
	case syntax.Error:
		r.Static, r.Parser, r.Line, r.Col, r.Msg = true, true, int(e.Pos.Line), int(e.Pos.Col), e.Msg
	case resolve.ErrorList:
		r.Static, r.Line, r.Col, r.Msg = true, int(e[0].Pos.Line), int(e[0].Pos.Col), e[0].Msg
	case resolve.Error:
		r.Static, r.Line, r.Col, r.Msg = true, int(e.Pos.Line), int(e.Pos.Col), e.Msg
	default:
		r.Runtime = err.Error()
	}
	return r
}

// ---------------------------------------------------------------------------
// judging one (program, options) pair

func ruleSet(spans []Span) string {
	seen := map[string]bool{}
	var rs []string
	for _, s := range spans {
		if !seen[s.Rule] && !s.May {
			seen[s.Rule] = true
			rs = append(rs, s.Rule)
		}
	}
	sort.Strings(rs)
	if len(rs) == 0 {
		return "-"
	}
	return strings.Join(rs, "+")
}

// judge returns "" or a violation kind and description.
func judge(spans []Span, pr prodResult, mustRunClean bool) (kind, what string) {
	refRejects, mayReject := false, false
	for _, s := range spans {
		if s.May {
			mayReject = true
		} else {
			refRejects = true
		}
	}
	if !refRejects && mayReject && pr.Static {
		// only tolerated constructs: a rejection must still point at one of them
		refRejects = true
	}
	switch {
	case pr.Panic != "":
		return "panic", "the implementation panicked: " + pr.Panic
	case refRejects && !pr.Static:
		return "accepted-invalid", fmt.Sprintf("the program breaks %v but was accepted (probes run: %d, runtime error: %q)", spans, pr.Probes, pr.Runtime)
	case !refRejects && pr.Static:
		return "rejected-valid", fmt.Sprintf("the program breaks no static rule under these options but was rejected at %d:%d: %s", pr.Line, pr.Col, pr.Msg)
	case refRejects:
		if pr.Probes != 0 {
			return "ran-before-reject", fmt.Sprintf("rejected (%s) but the probe ran %d times", pr.Msg, pr.Probes)
		}
		for _, s := range spans {
			if pr.Line == s.Line && pr.Col >= s.C1 && pr.Col < s.C2 {
				return "", ""
			}
		}
		return "position", fmt.Sprintf("first error %d:%d (%s) is outside every offending construct %v", pr.Line, pr.Col, pr.Msg, spans)
	default:
		if pr.Probes != 1 {
			return "accepted-not-run", fmt.Sprintf("accepted, but the probe ran %d times (runtime error %q)", pr.Probes, pr.Runtime)
		}
		if mustRunClean && pr.Runtime != "" {
			return "valid-base-fails", "an unmodified base program fails at run time: " + pr.Runtime
		}
	}
	return "", ""
}

// ---------------------------------------------------------------------------
// cases

// Case identifies one program for replay; it is regenerated from the plan.
type Case struct {
	Part  string     `json:"part"` // "static" | "recursion"
	Chain string     `json:"chain"`
	Plant string     `json:"plant,omitempty"` // "" = unmodified base
	Stmt  bool       `json:"stmt,omitempty"`
	Block int        `json:"block,omitempty"`
	Index int        `json:"index,omitempty"`
	Slot  int        `json:"slot,omitempty"`
	Lits  bool       `json:"lits,omitempty"`
	Opts  int        `json:"opts"`
	Text  string     `json:"text,omitempty"`
	Graph *Graph     `json:"graph,omitempty"`
	Entry *entryCase `json:"entry_case,omitempty"`
}

type finding struct {
	group string
	key   string
	what  string
	c     Case
}

func findPlant(ps []Plant, name string) (Plant, bool) {
	for _, p := range ps {
		if p.Name == name {
			return p, true
		}
	}
	return Plant{}, false
}

// program regenerates the tree of a static case.
func (c Case) program() (*Node, string) {
	if c.Part == "lists" {
		var file *Node
		forEachListProgram(func(idx int64, name string, f *Node) bool {
			if idx == int64(c.Index) {
				file = f
				return false
			}
			return true
		})
		if file == nil {
			fw.Fatal("list program %d not found", c.Index)
		}
		return file, "list"
	}
	base := buildBase(c.Chain).File
	switch {
	case c.Plant == "":
		return base, "base"
	case c.Stmt:
		p, ok := findPlant(stmtPlants(), c.Plant)
		if !ok {
			fw.Fatal("unknown plant %q", c.Plant)
		}
		pos := stmtPos{c.Block, c.Index}
		return plantStmt(base, p, pos), describeStmtPos(base, pos)
	default:
		p, ok := findPlant(exprPlants(), c.Plant)
		if !ok {
			fw.Fatal("unknown plant %q", c.Plant)
		}
		return plantExpr(base, p, c.Slot, c.Lits), fmt.Sprintf("expr#%d", c.Slot)
	}
}

// checkProgram runs one program under one option vector.
func checkProgram(c Case, tree *Node, text, where string, st *fw.Stats) []finding {
	o := optsFromBits(c.Opts)
	spans := RefCheck(tree, o, predeclaredNames)
	pr := runProd(text, o)
	kind, what := judge(spans, pr, c.Plant == "")
	if st != nil && kind == "" && pr.Static {
		for _, s := range spans {
			if s.May && pr.Line == s.Line && pr.Col >= s.C1 && pr.Col < s.C2 {
				st.Count("tolerated_rejections:"+s.Rule, 1)
				break
			}
		}
	}
	if st != nil {
		st.Evals++
		if len(spans) > 0 {
			// the reference finds an offending construct under this option vector
			st.Nontrivial++
		}
		switch {
		case pr.Static && pr.Parser:
			st.Outcome("rejected-by-parser")
		case pr.Static:
			st.Outcome("rejected-by-resolver")
		case pr.Runtime != "":
			st.Outcome("accepted-runtime-error")
			msg := pr.Runtime
			if i := strings.LastIndex(msg, ": "); i >= 0 && i < len(msg)-2 {
				msg = msg[i+2:]
			}
			if len(msg) > 48 {
				msg = msg[:48]
			}
			st.Count("accepted_planted_program_fails_at_run_time: "+msg, 1)
		default:
			st.Outcome("accepted-ran")
		}
		if len(spans) > 1 {
			st.Count("programs_with_several_offending_constructs", 1)
		}
	}
	if kind == "" {
		return nil
	}
	plant := c.Plant
	if plant == "" {
		plant = "base"
	}
	flags := fmt.Sprintf("lbg=%d,gr=%d", b2i(o.LoadBindsGlobally), b2i(o.GlobalReassign))
	rules := ruleSet(spans)
	key := fmt.Sprintf("%s:%s:%s:%s:%s:%s:%s", kind, rules, flags, plant, where, chainName(c.Chain), o)
	c.Text = text
	return []finding{{kind + ":" + rules + ":" + flags, key, fmt.Sprintf("[%s] %s | program: %s", o, what, strings.ReplaceAll(text, "\n", "\\n")), c}}
}

func chainName(c string) string {
	if c == "" {
		return "chain=-"
	}
	return "chain=" + c
}

func b2i(b bool) int {
	if b {
		return 1
	}
	return 0
}

// ---------------------------------------------------------------------------
// worker

type limiter struct {
	per map[string]int
	st  *fw.Stats
}

func (l *limiter) add(fs []finding) {
	for _, f := range fs {
		l.st.Count("violating_cases:"+f.group, 1)
		if l.per[f.group] >= 2 {
			continue
		}
		l.per[f.group]++
		l.st.Violate(f.key, f.what, f.c)
	}
}

// level is one enumeration level: static programs over container chains of
// one length, or call graphs with one number of edges.
type level struct {
	lists    bool // every parameter list and argument list up to a length
	static   bool
	n        int
	stmtOnly bool // static: statement plants only
	late     bool // static: comes after the recursion levels (not subject to the 70% rule)
}

func (l level) name() string {
	if l.lists {
		return fmt.Sprintf("lists:all-parameter-and-argument-lists-of-length<=%d", maxListLen)
	}
	if l.static && l.stmtOnly {
		return fmt.Sprintf("static:container-chains-of-length-%d(statement-plants-only)", l.n)
	}
	if l.static {
		return fmt.Sprintf("static:container-chains-of-length-%d", l.n)
	}
	return fmt.Sprintf("recursion:call-graphs-with-%d-edges", l.n)
}

// levels: simplest first.  quick: chains of length <= 1, graphs with <= 4
// edges, then chains of length 2 with statement plants only.  thorough:
// chains <= 2, graphs <= 5 edges, then chains of length 3.
func levels(thorough bool) []level {
	var ls []level
	maxd, maxe := 1, 4
	if thorough {
		maxd, maxe = 2, 5
	}
	ls = append(ls, level{lists: true})
	for d := 0; d <= maxd; d++ {
		ls = append(ls, level{static: true, n: d})
	}
	for e := 0; e <= maxe; e++ {
		ls = append(ls, level{n: e})
	}
	if thorough {
		ls = append(ls, level{static: true, n: 3, late: true})
	} else {
		ls = append(ls, level{static: true, n: 2, stmtOnly: true, late: true})
	}
	return ls
}

func levelNames(thorough bool) []string {
	var ns []string
	for _, l := range levels(thorough) {
		ns = append(ns, l.name())
	}
	return ns
}

func worker(c *fw.Ctx) *fw.Stats {
	runtime.GOMAXPROCS(2)
	debug.SetGCPercent(400)
	if p := os.Getenv("VERIF_C09_PROF"); p != "" && c.Shard == 0 {
		f, _ := os.Create(p)
		pprof.StartCPUProfile(f)
		defer pprof.StopCPUProfile()
	}
	st := fw.NewStats()
	lim := &limiter{per: map[string]int{}, st: st}
	lnames := levelNames(c.Thorough())
	li := 0
	done := func() { st.Count("leveldone:"+lnames[li], 1); li++ }
	cut := func() *fw.Stats { st.Count("levelcut:"+lnames[li], 1); return st }

	sps, eps := stmtPlants(), exprPlants()
	unit := int64(0)
	// The first group of static levels may use at most 70% of the budget, so
	// that on a slow machine the recursion levels are still reached.
	staticDeadline := time.Now().Add(time.Until(c.Deadline) * 7 / 10)
	staticCut := false
	for lvi, lv := range levels(c.Thorough()) {
		unit = int64(lvi) << 40 // the same numbering in every shard wherever an earlier level stopped
		if lv.lists {
			// every option x every entry point of the API (small; part of this level)
			forEachEntryCase(func(i int64, ec entryCase) bool {
				if !c.Mine(i) {
					return true
				}
				st.Evals++
				st.Nontrivial++
				st.Outcome("entry-point:" + ec.Entry)
				if what := checkEntry(ec); what != "" {
					ec := ec
					kind := "entry-point"
					lim.add([]finding{{kind + ":" + ec.Entry + ":" + ec.Prog, fmt.Sprintf("%s:%s:%s:%d", kind, ec.Entry, ec.Prog, ec.Opts), what, Case{Part: "entry", Opts: ec.Opts, Entry: &ec}}})
				}
				return true
			})
			listOpts := []int{0, 63, 1 << 5}
			completed := true
			forEachListProgram(func(idx int64, name string, file *Node) bool {
				if !c.Mine(idx) {
					return true
				}
				text := Render(file)
				for _, o := range listOpts {
					lim.add(checkProgram(Case{Part: "lists", Plant: name, Index: int(idx), Opts: o}, file, text, "list", st))
				}
				st.Count("parameter_and_argument_list_programs", 1)
				if idx%4001 == 7 {
					st.Sample(map[string]any{"list_program": text, "reference_default_options": fmt.Sprint(RefCheck(file, Opts{}, predeclaredNames))})
				}
				if idx%64 == 0 && c.Expired() {
					completed = false
					return false
				}
				return true
			})
			if !completed {
				return cut()
			}
			done()
			continue
		}
		if lv.static && staticCut && !lv.late {
			st.Count("levelcut:"+lnames[li], 1)
			li++
			continue
		}
		if lv.late {
			staticCut = false
		}
		if !lv.static {
			ok := forEachGraph(lv.n, func(g Graph) bool {
				unit++
				if !c.Mine(unit) {
					return true
				}
				for _, rec := range []bool{false, true} {
					lim.add(checkGraph(g, rec, st))
				}
				if lv.n == 3 && len(g.Edges) == 3 && g.N == 3 && g.Edges[0].Kind == eCallback && g.Edges[2].To == 0 && len(st.Samples) < 3 {
					tr, re := g.simulate(false)
					st.Sample(map[string]any{"call_graph": g.String(), "program": g.programText(), "predicted_entries": tr, "re_entry": re})
				}
				return !c.Expired()
			})
			if !ok {
				return cut()
			}
			done()
			continue
		}
		d := lv.n
		// expression plants also wrap literals, except at the deepest level
		lits := d < 3
		for _, chain := range chainsOfLen(d) {
			if staticCut {
				break
			}
			base := buildBase(chain).File
			runAll := func(cs Case, tree *Node, where string) bool {
				text := Render(tree)
				for o := 0; o < 64; o++ {
					cs.Opts = o
					lim.add(checkProgram(cs, tree, text, where, st))
				}
				if time.Now().After(staticDeadline) && !lv.late {
					staticCut = true
					return false
				}
				return !c.Expired()
			}
			unit++
			if c.Mine(unit) {
				if !runAll(Case{Part: "static", Chain: chain}, base, "base") {
					if staticCut {
						break
					}
					return cut()
				}
				st.Count("base_programs", 1)
				if chain == "D" {
					st.Sample(map[string]any{"base_program": Render(base)})
				}
			}
			poss := stmtPositions(base)
			for _, p := range sps {
				if staticCut {
					break
				}
				for _, pos := range poss {
					unit++
					if !c.Mine(unit) {
						continue
					}
					tree := plantStmt(base, p, pos)
					if !runAll(Case{Part: "static", Chain: chain, Plant: p.Name, Stmt: true, Block: pos.block, Index: pos.index}, tree, describeStmtPos(base, pos)) {
						if staticCut {
							break
						}
						return cut()
					}
					st.Count("planted_statement_programs", 1)
				}
			}
			nslots := len(exprSlots(base, lits))
			if lv.stmtOnly {
				nslots = 0
			}
			for _, p := range eps {
				if staticCut {
					break
				}
				for s := 0; s < nslots; s++ {
					unit++
					if !c.Mine(unit) {
						continue
					}
					tree := plantExpr(base, p, s, lits)
					if !runAll(Case{Part: "static", Chain: chain, Plant: p.Name, Slot: s, Lits: lits}, tree, fmt.Sprintf("expr#%d", s)) {
						if staticCut {
							break
						}
						return cut()
					}
					st.Count("planted_expression_programs", 1)
					if chain == "D" && p.Name == "lambda-dup-param" && s == 40 {
						st.Sample(map[string]any{"planted": p.Name, "program": Render(tree), "reference_default_options": fmt.Sprint(RefCheck(tree, Opts{}, predeclaredNames))})
					}
				}
			}
		}
		if staticCut {
			st.Count("levelcut:"+lnames[li], 1)
			li++
			continue
		}
		done()
	}
	return st
}

func run(c *fw.Ctx) *fw.Stats {
	nshards := runtime.NumCPU()
	total := c.Sharded(nshards, nil)
	for _, l := range levelNames(c.Thorough()) {
		d, cu := total.Counters["leveldone:"+l], total.Counters["levelcut:"+l]
		delete(total.Counters, "leveldone:"+l)
		delete(total.Counters, "levelcut:"+l)
		switch {
		case cu == 0 && d == int64(nshards):
			total.Levels = append(total.Levels, l)
		case cu > 0 || d > 0:
			total.Cut = append(total.Cut, fmt.Sprintf("%s (completed in %d of %d shards)", l, d, nshards))
		default:
			total.Cut = append(total.Cut, l+" (not started)")
		}
	}
	sort.SliceStable(total.Viols, func(i, j int) bool {
		if len(total.Viols[i].Key) != len(total.Viols[j].Key) {
			return len(total.Viols[i].Key) < len(total.Viols[j].Key)
		}
		return total.Viols[i].Key < total.Viols[j].Key
	})
	per := map[string]int{}
	var keep []fw.Viol
	for _, v := range total.Viols {
		parts := strings.SplitN(v.Key, ":", 4)
		group := v.Key
		if len(parts) == 4 {
			group = parts[0] + ":" + parts[1] + ":" + parts[2]
		}
		if per[group] < 2 {
			per[group]++
			keep = append(keep, v)
		}
	}
	total.Viols = keep
	return total
}

func replay(c *fw.Ctx, raw json.RawMessage) []fw.Viol {
	var cs Case
	if err := json.Unmarshal(raw, &cs); err != nil {
		fw.Fatal("bad case: %v", err)
	}
	var fs []finding
	if cs.Part == "entry" {
		if what := checkEntry(*cs.Entry); what != "" {
			return []fw.Viol{{Key: fmt.Sprintf("entry-point:%s:%s:%d", cs.Entry.Entry, cs.Entry.Prog, cs.Entry.Opts), What: what}}
		}
		return nil
	}
	if cs.Part == "recursion" || cs.Part == "recursion2" || cs.Part == "recursion3" {
		fs = checkGraph(*cs.Graph, optsFromBits(cs.Opts).Recursion, nil)
	} else {
		tree, where := cs.program()
		text := Render(tree)
		fs = checkProgram(cs, tree, text, where, nil)
	}
	var out []fw.Viol
	for _, f := range fs {
		out = append(out, fw.Viol{Key: f.key, What: f.what})
	}
	return out
}

func init() {
	fw.Register(&fw.Prop{
		ID:    "C09",
		Level: "exploration",
		Rule: "lists: every parameter list of length <= 4 over {required, optional, *args, bare *, **kwargs, duplicate names} in a def and a lambda, every argument list of length <= 4 over {positional, two keyword names, keyword with a nested keyword call, positional nested call, *, **} alone and after a warm-up call; 15 option-sensitive programs (two of them use a set predeclared by the application, which no option gates) x 64 option vectors x 7 API entry points; call graphs entered from module top level, by the host on an empty stack, with their second-closure edges leading into a second instance of the same Program (initialised twice), and rendered without any call expression (every function entered from an operator or index on a value of the application); static: every base program (probe(); load; global; a chain of containers from {def+call, for, if-arm, else-arm, while} around a leaf block that uses every expression and simple-statement form; " +
			"quick: all 6 chains of length <=1 with every plant, then the 25 chains of length 2 with statement plants only; thorough: all 31 chains of length <=2 with every plant, then the 125 chains of length 3) " +
			"x {unmodified; each of 69 statement plants inserted at every index of every block; each of 39 expression plants wrapped as (PLANT, X)[1] around every r-value expression node X} x all 64 FileOptions vectors; " +
			"plants are rule-breaking constructs (undefined name, break/continue/return/load out of place, if/for/while at top level, while, set, rebinding by assignment/def/load/for/augmented/tuple, bad parameter lists, bad argument lists, 256 arguments, compound or non-assignable targets) and legal look-alikes (255 arguments, keyword-only forms, forward references); " +
			"oracle = own static checker on the tree giving the set of offending constructs: reject iff non-empty, first reported position inside one of them, probe not run on rejection, accepted programs compile and start (unmodified bases must finish cleanly). " +
			"recursion: all call graphs over <=4 functions (f0 entry, others canonical up to renaming) with <=4 (quick) / <=5 (thorough) edges, each edge direct / via lambda / via sorted|min|max key= / to a second closure of the same def, Recursion off and on, " +
			"oracle = simulation of the bounded-depth execution predicting the exact sequence of function entries and whether a function code already active is re-entered. non-trivial = (program, options) pairs (distinct by construction) in which the reference finds at least one offending construct, i.e. the planted violation is live under that option vector, plus every (call graph, option) pair in which some function is re-entered; the other pairs must be accepted and run, and are judged but not counted",
		Run: run, Worker: worker, Replay: replay,
		Assumptions: []string{
			"which of several simultaneous static errors is reported first is not judged: the first reported position must lie inside any one offending construct",
			"a static rejection by the parser counts the same as one by the resolver",
			"error wording is not compared; the recursion failure is recognised by the word 'recursive' in the message",
			"constructs on which the specification is silent are not planted: named argument or *args after **kwargs, two ** arguments, a load rebinding a loaded name, augmented assignment of a never-bound global",
			"run-time errors of accepted planted programs are tolerated (only unmodified bases must finish cleanly)",
			"with GlobalReassign on, a top-level use that precedes the binding of the global may be rejected as undefined (legacy use-at-point resolution documented in resolve.go); the specification allows the forward reference; neither answer is judged, rejections are counted in counters.tolerated_rejections",
		},
		BudgetQuick: 75, BudgetThorough: 1000,
	})
}
