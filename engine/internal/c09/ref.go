package c09

import "fmt"

// Reference static checker, written from doc/spec.md (§ Name binding and
// variables, § Functions, § Function definitions, § Function and method calls,
// § Assignments, § Augmented assignments, § If/While/For, § Break and
// Continue, § Load statements) and from the one-line documentation of each
// field of syntax.FileOptions.  It works on our own tree and reports the set
// of offending constructs as spans; it shares no code with package resolve.

type Opts struct {
	Set, While, TopLevelControl, GlobalReassign, LoadBindsGlobally, Recursion bool
}

func optsFromBits(b int) Opts {
	return Opts{b&1 != 0, b&2 != 0, b&4 != 0, b&8 != 0, b&16 != 0, b&32 != 0}
}

func (o Opts) String() string {
	s := ""
	add := func(on bool, n string) {
		if on {
			s += "+" + n
		}
	}
	add(o.Set, "Set")
	add(o.While, "While")
	add(o.TopLevelControl, "TopLevelControl")
	add(o.GlobalReassign, "GlobalReassign")
	add(o.LoadBindsGlobally, "LoadBindsGlobally")
	add(o.Recursion, "Recursion")
	if s == "" {
		return "default"
	}
	return s[1:]
}

// Span is an offending construct: the error must be reported on Line at a
// column in [C1, C2).
type Span struct {
	Rule   string
	Line   int
	C1, C2 int
	// May marks a construct the implementation is allowed, but not required,
	// to reject (see use()).
	May bool
}

func (s Span) String() string { return fmt.Sprintf("%s@%d:%d-%d", s.Rule, s.Line, s.C1, s.C2) }

// universal names (doc/spec.md § Built-in constants and functions)
var universe = map[string]bool{}

func init() {
	for _, n := range []string{"None", "True", "False", "abs", "any", "all", "bool", "bytes", "chr", "dict", "dir", "enumerate",
		"fail", "float", "getattr", "hasattr", "hash", "int", "len", "list", "max", "min", "ord", "print", "range", "repr",
		"reversed", "set", "sorted", "str", "tuple", "type", "zip"} {
		universe[n] = true
	}
}

type scope struct {
	file   bool
	names  map[string]bool
	parent *scope
}

type ctx struct {
	sc     *scope
	inFunc bool
	loops  int // enclosing loops within the current function (or file)
	nest   int // enclosing if/for/while statements
}

type checker struct {
	o           Opts
	predeclared map[string]bool
	errs        []Span
	topBound    map[string]int
}

func (c *checker) err(rule string, n *Node) {
	c.errs = append(c.errs, Span{rule, n.Line, n.Col, n.ECol, false})
}

func (c *checker) errAt(rule string, line, c1, c2 int) {
	c.errs = append(c.errs, Span{rule, line, c1, c2, false})
}

// RefCheck returns the offending constructs of a rendered file (nil: accept).
func RefCheck(file *Node, o Opts, predeclared map[string]bool) []Span {
	c := &checker{o: o, predeclared: predeclared, topBound: map[string]int{}}
	fs := &scope{file: true, names: map[string]bool{}}
	collect(file.C, fs.names)
	c.stmts(file.C, ctx{sc: fs})
	return c.errs
}

// collect gathers the names bound by the statements of one block (function
// body or file), not descending into nested functions.
func collect(stmts []*Node, into map[string]bool) {
	for _, s := range stmts {
		switch s.K {
		case KAssign, KAugAssign:
			targetNames(s.C[0], into)
		case KFor:
			targetNames(s.C[0], into)
			collect(s.C[2].C, into)
		case KIf:
			collect(s.C[1].C, into)
			if len(s.C) > 2 {
				collect(s.C[2].C, into)
			}
		case KWhile:
			collect(s.C[1].C, into)
		case KDef:
			into[s.S] = true
		case KLoad:
			for _, it := range s.C {
				into[it.S] = true
			}
		}
	}
}

func targetNames(t *Node, into map[string]bool) {
	switch t.K {
	case KIdent:
		into[t.S] = true
	case KTuple, KList, KParen:
		for _, e := range t.C {
			targetNames(e, into)
		}
	}
}

func (c *checker) stmts(ss []*Node, x ctx) {
	for _, s := range ss {
		c.stmt(s, x)
	}
}

// bindTop records an explicit binding of a name at top level.
func (c *checker) bindTop(name string, line, c1, c2 int, byLoad bool) {
	c.topBound[name]++
	if c.topBound[name] > 1 && !c.o.GlobalReassign {
		rule := "rebind-toplevel"
		if byLoad {
			rule = "rebind-toplevel-by-load"
		}
		c.errAt(rule, line, c1, c2)
	}
}

func (c *checker) stmt(s *Node, x ctx) {
	top := !x.inFunc
	inner := x
	inner.nest++
	switch s.K {
	case KExprStmt:
		c.expr(s.C[0], x)
	case KAssign:
		c.expr(s.C[1], x)
		c.target(s.C[0], x, false)
	case KAugAssign:
		c.expr(s.C[1], x)
		t := s.C[0]
		for t.K == KParen {
			t = t.C[0]
		}
		if t.K == KTuple || t.K == KList {
			c.err("augmented-compound-target", s.C[0])
		}
		c.target(s.C[0], x, true)
	case KDef:
		if x.sc.file {
			c.bindTop(s.S, s.OpLine, s.OpCol, s.OpCol+len(s.S), false)
		}
		c.function(s.C[0], s.C[1].C, nil, x)
	case KIf:
		if top && !c.o.TopLevelControl {
			c.errAt("if-toplevel", s.Line, s.Col, s.Col+2)
		}
		c.expr(s.C[0], x)
		c.stmts(s.C[1].C, inner)
		if len(s.C) > 2 {
			c.stmts(s.C[2].C, inner)
		}
	case KFor:
		if top && !c.o.TopLevelControl {
			c.errAt("for-toplevel", s.Line, s.Col, s.Col+3)
		}
		c.expr(s.C[1], x)
		c.target(s.C[0], x, false)
		inner.loops++
		c.stmts(s.C[2].C, inner)
	case KWhile:
		if !c.o.While {
			c.errAt("while-disabled", s.Line, s.Col, s.Col+5)
		}
		if top && !c.o.TopLevelControl {
			c.errAt("while-toplevel", s.Line, s.Col, s.Col+5)
		}
		c.expr(s.C[0], x)
		inner.loops++
		c.stmts(s.C[1].C, inner)
	case KReturn:
		if top {
			c.errAt("return-outside-function", s.Line, s.Col, s.Col+6)
		}
		if len(s.C) > 0 {
			c.expr(s.C[0], x)
		}
	case KBreak:
		if x.loops == 0 {
			c.errAt("break-outside-loop", s.Line, s.Col, s.Col+5)
		}
	case KContinue:
		if x.loops == 0 {
			c.errAt("continue-outside-loop", s.Line, s.Col, s.Col+8)
		}
	case KPass:
	case KLoad:
		if x.inFunc || x.nest > 0 {
			c.errAt("load-nested", s.Line, s.Col, s.Col+4)
		}
		if x.sc.file {
			for _, it := range s.C {
				c.bindTop(it.S, it.Line, it.Col, it.ECol, true)
			}
		}
	default:
		panic("ref: unexpected statement")
	}
}

// target checks an assignment target (also for/comprehension variables).
func (c *checker) target(t *Node, x ctx, augmented bool) {
	switch t.K {
	case KIdent:
		if x.sc.file {
			c.bindTop(t.S, t.Line, t.Col, t.ECol, false)
		}
	case KIndex:
		c.expr(t.C[0], x)
		c.expr(t.C[1], x)
	case KDot:
		c.expr(t.C[0], x)
	case KTuple, KList, KParen:
		for _, e := range t.C {
			c.target(e, x, augmented)
		}
	default:
		c.err("not-assignable", t)
	}
}

// function checks a def or lambda: params, then the body in a new block.
func (c *checker) function(ps *Node, body []*Node, lambdaBody *Node, x ctx) {
	// defaults are evaluated in the enclosing environment
	for _, p := range ps.C {
		if p.K == KParamOpt {
			c.expr(p.C[0], x)
		}
	}
	seenOpt, seenStar, seenStarStar := false, false, false
	byName := map[string][]*Node{}
	var order []string
	for i, p := range ps.C {
		if seenStarStar {
			c.err("param-after-kwargs", p)
		}
		switch p.K {
		case KParam:
			if !seenStar && !seenStarStar && seenOpt {
				c.err("required-after-optional", p)
			}
		case KParamOpt:
			if !seenStar {
				seenOpt = true
			}
		case KParamStar:
			if seenStar {
				c.err("two-stars", p)
			} else if p.S == "" {
				// a bare * must be followed by at least one keyword-only parameter
				kwonly := 0
				for _, q := range ps.C[i+1:] {
					if q.K == KParam || q.K == KParamOpt {
						kwonly++
					}
					if q.K == KParamStarStar {
						break
					}
				}
				if kwonly == 0 {
					c.err("bare-star-without-kwonly", p)
				}
			}
			seenStar = true
		case KParamStarStar:
			seenStarStar = true
		}
		if p.S != "" {
			if _, ok := byName[p.S]; !ok {
				order = append(order, p.S)
			}
			byName[p.S] = append(byName[p.S], p)
		}
	}
	fs := &scope{names: map[string]bool{}, parent: x.sc}
	for _, n := range order {
		fs.names[n] = true
		if len(byName[n]) > 1 {
			for _, p := range byName[n] {
				c.err("duplicate-parameter", p)
			}
		}
	}
	fx := ctx{sc: fs, inFunc: true}
	if lambdaBody != nil {
		c.expr(lambdaBody, fx)
		return
	}
	collect(body, fs.names)
	c.stmts(body, fx)
}

func (c *checker) use(n *Node, x ctx) {
	for s := x.sc; s != nil; s = s.parent {
		if s.names[n.S] {
			// Tolerance, not a rule: resolve.go documents that with
			// GlobalReassign the resolver keeps the legacy behaviour of
			// resolving a top-level use at the point of use, so a use that
			// precedes the binding is reported as undefined (unless the name
			// is also predeclared).  The specification makes it a legal
			// forward reference; we do not judge either answer.
			if s.file && x.sc.file && c.o.GlobalReassign && c.topBound[n.S] == 0 && !c.predeclared[n.S] && !universe[n.S] {
				c.errs = append(c.errs, Span{"gr-legacy-forward-use", n.Line, n.Col, n.ECol, true})
			}
			return
		}
	}
	if c.predeclared[n.S] {
		return
	}
	if universe[n.S] {
		if n.S == "set" && !c.o.Set {
			c.err("set-disabled", n)
		}
		return
	}
	c.err("undefined", n)
}

func (c *checker) expr(e *Node, x ctx) {
	switch e.K {
	case KIdent:
		c.use(e, x)
	case KLit:
	case KList, KTuple, KDict, KDictEntry, KUnary, KBinary, KCond, KIndex, KSlice, KParen:
		for _, k := range e.C {
			c.expr(k, x)
		}
	case KDot:
		c.expr(e.C[0], x)
	case KCall:
		c.expr(e.C[0], x)
		seenStar, seenStarStar := false, false
		names := map[string]bool{}
		npos, nnamed := 0, 0
		for _, a := range e.C[1:] {
			switch a.K {
			case KArgStarStar:
				// spec (Function and method calls): positional arguments, then named
				// arguments, then at most one *args, then at most one **kwargs
				if seenStarStar {
					c.err("two-starstar-args", a)
				}
				seenStarStar = true
				c.expr(a.C[0], x)
			case KArgStar:
				if seenStar {
					c.err("two-star-args", a)
				}
				if seenStarStar {
					c.err("star-after-starstar", a)
				}
				seenStar = true
				c.expr(a.C[0], x)
			case KArgNamed:
				nnamed++
				if seenStar {
					c.err("named-after-star", a)
				}
				if seenStarStar {
					c.err("named-after-starstar", a)
				}
				if names[a.S] {
					c.err("repeated-keyword", a)
				}
				names[a.S] = true
				c.expr(a.C[0], x)
			default:
				npos++
				if len(names) > 0 || seenStar || seenStarStar {
					c.err("positional-after-named-or-star", a)
				}
				c.expr(a, x)
			}
		}
		if npos > 255 || nnamed > 255 {
			c.err("too-many-arguments", e)
		}
	case KLambda:
		c.function(e.C[0], nil, e.C[1], x)
	case KListComp, KDictComp:
		// the operand of the first for clause belongs to the enclosing block
		first := e.C[1]
		c.expr(first.C[1], x)
		cs := &scope{names: map[string]bool{}, parent: x.sc}
		for _, cl := range e.C[1:] {
			if cl.K == KCompFor {
				targetNames(cl.C[0], cs.names)
			}
		}
		cx := x
		cx.sc = cs
		for i, cl := range e.C[1:] {
			if cl.K == KCompFor {
				c.target(cl.C[0], cx, false)
				if i > 0 {
					c.expr(cl.C[1], cx)
				}
			} else {
				c.expr(cl.C[0], cx)
			}
		}
		c.expr(e.C[0], cx)
	default:
		panic(fmt.Sprintf("ref: unexpected expression kind %d", e.K))
	}
}
