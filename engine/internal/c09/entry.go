package c09

// Every option x every entry point of the API that takes options: a feature
// must be available exactly when its option is on whichever way the program
// reaches the resolver and the interpreter (ExecFileOptions,
// SourceProgramOptions+Init, Parse+FileProgram+Init, ExecREPLChunk for files;
// EvalOptions, ExprFuncOptions+Call, ParseExpr+EvalExprOptions for
// expressions), under all 64 option vectors.

import (
	"fmt"
	"strings"

	"go.starlark.net/starlark"
	"go.starlark.net/syntax"
)

const (
	bSet = 1 << iota
	bWhile
	bTopLevelControl
	bGlobalReassign
	bLoadBindsGlobally
	bRecursion
)

type entryProg struct {
	name    string
	src     string
	expr    bool
	static  int  // option bits that must all be on for the program to be statically valid
	runtime int  // option bits that must be on for the run to succeed (else a dynamic error)
	noREPL  bool // the REPL applies its own top-level rules
	hostSet bool // the application predeclares its own "set": using it needs no option
}

// hostPredeclared: an application that provides a value named set (shadowing the
// universal, option-gated one).
var hostPredeclared = starlark.StringDict{"set": starlark.NewBuiltin("set", func(_ *starlark.Thread, _ *starlark.Builtin, args starlark.Tuple, _ []starlark.Tuple) (starlark.Value, error) {
	return starlark.MakeInt(len(args)), nil
})}

var entryProgs = []entryProg{
	{name: "set-expression", src: "set([1, 2])", expr: true, static: bSet},
	{name: "set-in-lambda-default-in-comprehension", src: "[(lambda s = set([1]): s)() for _ in [0]]", expr: true, static: bSet},
	{name: "self-applied-lambda", src: "(lambda f: f(f, 2))(lambda f, n: n and f(f, n - 1))", expr: true, runtime: bRecursion},
	{name: "plain-expression", src: "[1, 2][0] + len('ab')", expr: true},
	{name: "set-statement", src: "x = set([1])\n", static: bSet},
	{name: "while-in-def", src: "def f():\n    while False:\n        pass\n    return 1\nx = f()\n", static: bWhile},
	{name: "top-level-if", src: "x = 0\nif x == 0:\n    y = 1\n", static: bTopLevelControl, noREPL: true},
	{name: "top-level-for", src: "for i in [1]:\n    pass\n", static: bTopLevelControl, noREPL: true},
	{name: "top-level-while", src: "while False:\n    pass\n", static: bTopLevelControl | bWhile, noREPL: true},
	{name: "global-reassign", src: "x = 1\nx = 2\n", static: bGlobalReassign, noREPL: true},
	{name: "recursive-def", src: "def f(n):\n    return n and f(n - 1)\nx = f(2)\n", runtime: bRecursion},
	{name: "mutual-recursion-through-sorted", src: "def f(n):\n    return n and sorted([n - 1], key = g)\ndef g(n):\n    return f(n)\nx = f(2)\n", runtime: bRecursion},
	{name: "plain-file", src: "x = [1, 2][0]\ndef f():\n    return x\ny = f()\n"},
	{name: "host-set-used-twice-in-an-expression", src: "[set([1]), set([2]), (lambda: set([3]))()]", expr: true, hostSet: true},
	{name: "host-set-used-at-top-level-and-in-two-functions", src: "def f():\n    return set([1])\ndef g():\n    return set([2])\nx = (f(), g(), set([3]))\ny = set\n", hostSet: true},
}

type entryPoint struct {
	name string
	expr bool
	repl bool
	run  func(opts *syntax.FileOptions, src string, pre starlark.StringDict) (static bool, err error)
}

func isStatic(err error) bool {
	if err == nil {
		return false
	}
	s := fmt.Sprintf("%T", err)
	return strings.Contains(s, "syntax.Error") || strings.Contains(s, "resolve.Error")
}

var entryPoints = []entryPoint{
	{name: "ExecFileOptions", run: func(o *syntax.FileOptions, src string, pre starlark.StringDict) (bool, error) {
		_, err := starlark.ExecFileOptions(o, &starlark.Thread{}, "e.star", src, pre)
		return isStatic(err), err
	}},
	{name: "SourceProgramOptions+Init", run: func(o *syntax.FileOptions, src string, pre starlark.StringDict) (bool, error) {
		_, p, err := starlark.SourceProgramOptions(o, "e.star", src, pre.Has)
		if err != nil {
			return isStatic(err), err
		}
		_, err = p.Init(&starlark.Thread{}, pre)
		return false, err
	}},
	{name: "Parse+FileProgram+Init", run: func(o *syntax.FileOptions, src string, pre starlark.StringDict) (bool, error) {
		f, err := o.Parse("e.star", src, 0)
		if err != nil {
			return true, err
		}
		p, err := starlark.FileProgram(f, pre.Has)
		if err != nil {
			return isStatic(err), err
		}
		_, err = p.Init(&starlark.Thread{}, pre)
		return false, err
	}},
	{name: "ExecREPLChunk", repl: true, run: func(o *syntax.FileOptions, src string, pre starlark.StringDict) (bool, error) {
		f, err := o.Parse("e.star", src, 0)
		if err != nil {
			return true, err
		}
		g := starlark.StringDict{}
		for k, v := range pre {
			g[k] = v
		}
		err = starlark.ExecREPLChunk(f, &starlark.Thread{}, g)
		return isStatic(err), err
	}},
	{name: "EvalOptions", expr: true, run: func(o *syntax.FileOptions, src string, pre starlark.StringDict) (bool, error) {
		_, err := starlark.EvalOptions(o, &starlark.Thread{}, "e.star", src, pre)
		return isStatic(err), err
	}},
	{name: "ExprFuncOptions+Call", expr: true, run: func(o *syntax.FileOptions, src string, pre starlark.StringDict) (bool, error) {
		fn, err := starlark.ExprFuncOptions(o, "e.star", src, pre)
		if err != nil {
			return isStatic(err), err
		}
		_, err = starlark.Call(&starlark.Thread{}, fn, nil, nil)
		return false, err
	}},
	{name: "ParseExpr+EvalExprOptions", expr: true, run: func(o *syntax.FileOptions, src string, pre starlark.StringDict) (bool, error) {
		e, err := o.ParseExpr("e.star", src, 0)
		if err != nil {
			return true, err
		}
		_, err = starlark.EvalExprOptions(o, &starlark.Thread{}, e, pre)
		return isStatic(err), err
	}},
}

type entryCase struct {
	Prog  string `json:"program"`
	Entry string `json:"entry_point"`
	Opts  int    `json:"opts"`
}

// checkEntry returns "" or a description of the disagreement.
func checkEntry(ec entryCase) (what string) {
	var p *entryProg
	var ep *entryPoint
	for i := range entryProgs {
		if entryProgs[i].name == ec.Prog {
			p = &entryProgs[i]
		}
	}
	for i := range entryPoints {
		if entryPoints[i].name == ec.Entry {
			ep = &entryPoints[i]
		}
	}
	if p == nil || ep == nil {
		return "harness: unknown entry case"
	}
	o := optsFromBits(ec.Opts)
	var static bool
	var err error
	func() {
		defer func() {
			if r := recover(); r != nil {
				err = fmt.Errorf("PANIC: %v", r)
			}
		}()
		var pre starlark.StringDict
		if p.hostSet {
			pre = hostPredeclared
		}
		static, err = ep.run(fileOptions(o), p.src, pre)
	}()
	wantStatic := ec.Opts&p.static != p.static
	wantDynamic := !wantStatic && ec.Opts&p.runtime != p.runtime
	desc := fmt.Sprintf("%s through %s under [%s]: %q", p.name, ep.name, o, p.src)
	switch {
	case err != nil && strings.HasPrefix(err.Error(), "PANIC"):
		return desc + ": " + err.Error()
	case wantStatic && !static:
		return fmt.Sprintf("%s needs an option that is off but was not rejected statically (error: %v)", desc, err)
	case !wantStatic && static:
		return fmt.Sprintf("%s uses only features that are on but was rejected statically: %v", desc, err)
	case wantDynamic && (err == nil || !strings.Contains(err.Error(), "recursive")):
		return fmt.Sprintf("%s re-enters an active function with recursion off but did not fail with the recursion error (error: %v)", desc, err)
	case !wantStatic && !wantDynamic && err != nil:
		return fmt.Sprintf("%s should run: %v", desc, err)
	}
	return ""
}

func forEachEntryCase(f func(i int64, ec entryCase) bool) {
	var i int64
	for _, p := range entryProgs {
		for _, ep := range entryPoints {
			if p.expr != ep.expr || (p.noREPL && ep.repl) {
				continue
			}
			for o := 0; o < 64; o++ {
				if !f(i, entryCase{p.name, ep.name, o}) {
					return
				}
				i++
			}
		}
	}
}
