package c09

import (
	"fmt"
	"strings"

	"go.starlark.net/starlark"
	"go.starlark.net/syntax"

	"verif/internal/fw"
)

// Call graphs whose functions contain no call expression at all: a function
// is entered from an operation on a value implemented by the application (a
// binary operator on either side, an index), whose method runs the target
// function on the running thread; entry is recorded by an attribute read on
// another such value.  The recursion rule does not care how a function came
// to be re-entered.
//
// The same graphs as in rec.go are used; the edge kind selects the operation:
// direct -> H + (f, d-1); lambda -> H[(f, d-1)]; callback -> H | (f, d-1);  (not `x in H`: the interpreter
// discards the error of Mapping.Get there, by a documented decision)
// twin -> (f, d-1) + H  (the application's value on the right).

type leafHost struct {
	trace []int
	th    *starlark.Thread
}

type leafVal struct{ h *leafHost }

var (
	_ starlark.HasAttrs  = (*leafVal)(nil)
	_ starlark.HasBinary = (*leafVal)(nil)
	_ starlark.Mapping   = (*leafVal)(nil)
)

func (v *leafVal) String() string        { return "H" }
func (v *leafVal) Type() string          { return "appvalue" }
func (v *leafVal) Freeze()               {}
func (v *leafVal) Truth() starlark.Bool  { return true }
func (v *leafVal) Hash() (uint32, error) { return 0, fmt.Errorf("unhashable") }
func (v *leafVal) run(th *starlark.Thread, x starlark.Value) (starlark.Value, error) {
	t, ok := x.(starlark.Tuple)
	if !ok || len(t) != 2 {
		return nil, fmt.Errorf("appvalue: want (function, argument)")
	}
	return starlark.Call(th, t[0], starlark.Tuple{t[1]}, nil)
}
func (v *leafVal) Attr(name string) (starlark.Value, error) {
	var k int
	if _, err := fmt.Sscanf(name, "e%d", &k); err == nil {
		v.h.trace = append(v.h.trace, k)
		return starlark.None, nil
	}
	return nil, nil
}
func (v *leafVal) AttrNames() []string { return nil }
func (v *leafVal) Binary(op syntax.Token, y starlark.Value, side starlark.Side) (starlark.Value, error) {
	return v.run(v.h.th, y)
}
func (v *leafVal) Get(k starlark.Value) (starlark.Value, bool, error) {
	r, err := v.run(v.h.th, k)
	return r, err == nil, err
}

func (g Graph) leafText() string {
	var sb strings.Builder
	for i := 0; i < g.N; i++ {
		fmt.Fprintf(&sb, "def f%d(d):\n    P.e%d\n    if d > 0:\n", i, i)
		n := 0
		for _, e := range g.Edges {
			if e.From != i {
				continue
			}
			n++
			switch e.Kind {
			case eDirect:
				fmt.Fprintf(&sb, "        H + (f%d, d - 1)\n", e.To)
			case eLambda:
				fmt.Fprintf(&sb, "        H[(f%d, d - 1)]\n", e.To)
			case eCallback:
				fmt.Fprintf(&sb, "        H | (f%d, d - 1)\n", e.To)
			case eTwin:
				fmt.Fprintf(&sb, "        (f%d, d - 1) + H\n", e.To)
			}
		}
		if n == 0 {
			sb.WriteString("        pass\n")
		}
		sb.WriteString("    return d\n")
	}
	return sb.String()
}

// checkGraphLeaf runs the call-free rendering of g; the host calls f0(recDepth).
func checkGraphLeaf(g Graph, recursionAllowed bool, st *fw.Stats) []finding {
	// every edge enters its target directly (no lambda frames in this rendering)
	flat := Graph{N: g.N}
	for _, e := range g.Edges {
		flat.Edges = append(flat.Edges, Edge{e.From, e.To, eDirect})
	}
	want, reenters := flat.simulate(recursionAllowed)
	text := g.leafText()
	h := &leafHost{}
	h.th = &starlark.Thread{Name: "c09-leaf"}
	h.th.SetMaxExecutionSteps(2_000_000)
	val := &leafVal{h}
	var runtimeErr, static, panicMsg string
	func() {
		defer func() {
			if p := recover(); p != nil {
				panicMsg = fmt.Sprint(p)
			}
		}()
		gl, err := starlark.ExecFileOptions(fileOptions(Opts{Recursion: recursionAllowed}), h.th, "p.star", text, starlark.StringDict{"H": val, "P": val})
		if err != nil {
			static = err.Error()
			return
		}
		if _, err := starlark.Call(h.th, gl["f0"], starlark.Tuple{starlark.MakeInt(recDepth)}, nil); err != nil {
			runtimeErr = err.Error()
		}
	}()
	if st != nil {
		st.Evals++
		st.Outcome("recursion:entered-through-application-values")
	}
	bad := ""
	isRec := strings.Contains(runtimeErr, "recursive")
	switch {
	case panicMsg != "":
		bad = "panic: " + panicMsg
	case static != "":
		bad = "the program does not load: " + static
	case reenters && !isRec:
		bad = fmt.Sprintf("a function already active is re-entered (through an operation on a value of the application) but the run did not fail with the recursion error (error %q)", runtimeErr)
	case !reenters && runtimeErr != "":
		bad = fmt.Sprintf("no active function is re-entered (Recursion=%v) but the run failed: %s", recursionAllowed, runtimeErr)
	case fmt.Sprint(h.trace) != fmt.Sprint(want):
		bad = fmt.Sprintf("function entries %v, reference predicts %v", h.trace, want)
	}
	if bad == "" {
		return nil
	}
	group := fmt.Sprintf("recursion(functions without call expressions, entered through application values):rec=%d", b2i(recursionAllowed))
	bits := 0
	if recursionAllowed {
		bits = 32
	}
	gg := g
	return []finding{{group + ":-", group + ":-:" + g.String(), bad + " | program (H and P are values of the application; the host calls f0(4)): " + strings.ReplaceAll(text, "\n", "\\n"),
		Case{Part: "recursion3", Graph: &gg, Opts: bits, Text: text}}}
}
