package c09

import (
	"fmt"
	"strings"

	"verif/internal/fw"
)

// Dynamic recursion.  A call graph has functions 0..N-1 (0 is called from top
// level with a depth budget) and a set of distinct edges (from, to, kind); the
// body of function i performs the calls of its out-edges in (to, kind) order
// while its depth budget is positive, passing budget-1.  Every function is
// made by a factory called twice, so that each definition has two closures
// sharing one function code.

const (
	eDirect    = 0 // f_j(d - 1)
	eLambda    = 1 // (lambda: f_j(d - 1))()
	eCallback  = 2 // sorted/min/max([d - 1], key=f_j)
	eTwin      = 3 // f_jb(d - 1): the second closure made from the same def
	nEdgeKinds = 4
)

const recDepth = 4

type Edge struct {
	From int `json:"f"`
	To   int `json:"t"`
	Kind int `json:"k"`
}

type Graph struct {
	N     int    `json:"n"`
	Edges []Edge `json:"edges"`
}

var kindLetters = "dlct"

func (g Graph) String() string {
	var es []string
	for _, e := range g.Edges {
		es = append(es, fmt.Sprintf("%d>%d%c", e.From, e.To, kindLetters[e.Kind]))
	}
	return fmt.Sprintf("n=%d;%s", g.N, strings.Join(es, ","))
}

func recMaxEdges(thorough bool) int {
	if thorough {
		return 5
	}
	return 4
}

// forEachGraph enumerates every canonical graph with exactly ne edges over at
// most 4 functions: all functions are reachable from 0, and functions are
// numbered in the order a breadth-first walk from 0 (edges in sorted order)
// discovers them, which removes renamings of 1..3.  f returns false to stop.
func forEachGraph(ne int, f func(Graph) bool) bool {
	const maxN = 4
	var universe []Edge
	for from := 0; from < maxN; from++ {
		for to := 0; to < maxN; to++ {
			for k := 0; k < nEdgeKinds; k++ {
				universe = append(universe, Edge{from, to, k})
			}
		}
	}
	cur := make([]Edge, 0, ne)
	var rec func(start int) bool
	rec = func(start int) bool {
		if len(cur) == ne {
			if n, ok := canonical(cur); ok {
				return f(Graph{N: n, Edges: append([]Edge{}, cur...)})
			}
			return true
		}
		for i := start; i < len(universe); i++ {
			cur = append(cur, universe[i])
			if !rec(i + 1) {
				return false
			}
			cur = cur[:len(cur)-1]
		}
		return true
	}
	return rec(0)
}

func canonical(es []Edge) (n int, ok bool) {
	used := [4]bool{true}
	for _, e := range es {
		used[e.From], used[e.To] = true, true
	}
	// breadth-first discovery from 0
	seen := [4]bool{true}
	order := []int{0}
	for qi := 0; qi < len(order); qi++ {
		for _, e := range es { // es is sorted by (from, to, kind)
			if e.From == order[qi] && !seen[e.To] {
				seen[e.To] = true
				order = append(order, e.To)
			}
		}
	}
	for i, v := range order {
		if v != i {
			return 0, false
		}
	}
	for i := 0; i < 4; i++ {
		if used[i] && !seen[i] {
			return 0, false
		}
	}
	return len(order), true
}

func callbackName(e Edge, idx int) string {
	return []string{"sorted", "min", "max"}[(e.From+e.To+idx)%3]
}

// programText renders the graph as a Starlark program (default options
// except Recursion).
func (g Graph) programText() string {
	var sb strings.Builder
	sb.WriteString("probe()\n")
	for i := 0; i < g.N; i++ {
		fmt.Fprintf(&sb, "def mk%d():\n    def f(d):\n        enter(%d)\n        if d > 0:\n", i, i)
		n := 0
		for idx, e := range g.Edges {
			if e.From != i {
				continue
			}
			n++
			switch e.Kind {
			case eDirect:
				fmt.Fprintf(&sb, "            f%d(d - 1)\n", e.To)
			case eLambda:
				fmt.Fprintf(&sb, "            (lambda: f%d(d - 1))()\n", e.To)
			case eCallback:
				fmt.Fprintf(&sb, "            %s([d - 1], key=f%d)\n", callbackName(e, idx), e.To)
			case eTwin:
				fmt.Fprintf(&sb, "            f%db(d - 1)\n", e.To)
			}
		}
		if n == 0 {
			sb.WriteString("            pass\n")
		}
		sb.WriteString("        return d\n    return f\n")
		fmt.Fprintf(&sb, "f%d = mk%d()\nf%db = mk%d()\n", i, i, i, i)
	}
	fmt.Fprintf(&sb, "f0(%d)\n", recDepth)
	return sb.String()
}

// simulate is the reference: it walks the graph exactly as the program would
// execute and reports the sequence of function entries and whether, with the
// recursion check on, some function code that is already active is entered
// again (the walk stops there).
func (g Graph) simulate(recursionAllowed bool) (trace []int, reenters bool) {
	active := map[int]int{} // function code -> activations; lambdas are codes 100+edge index
	var enter func(code int, body func() bool) bool
	enter = func(code int, body func() bool) bool {
		if !recursionAllowed && active[code] > 0 {
			reenters = true
			return false
		}
		active[code]++
		ok := body()
		active[code]--
		return ok
	}
	var callFn func(j, d int) bool
	callFn = func(j, d int) bool {
		return enter(j, func() bool {
			trace = append(trace, j)
			if d <= 0 {
				return true
			}
			for idx, e := range g.Edges {
				if e.From != j {
					continue
				}
				var ok bool
				if e.Kind == eLambda {
					ok = enter(100+idx, func() bool { return callFn(e.To, d-1) })
				} else {
					ok = callFn(e.To, d-1)
				}
				if !ok {
					return false
				}
			}
			return true
		})
	}
	callFn(0, recDepth)
	return trace, reenters
}

func checkGraph(g Graph, recursionAllowed bool, st *fw.Stats) []finding {
	fs := checkGraphVia(g, recursionAllowed, false, st)
	// the same call graph entered by the host (starlark.Call on a thread with an empty stack)
	fs = append(fs, checkGraphVia(g, recursionAllowed, true, st)...)
	// and with every "second closure" edge leading into a second instance of the same program
	// (one Program initialised twice: the two modules share every function code)
	for _, e := range g.Edges {
		if e.Kind == eTwin {
			fs = append(fs, checkGraphTwoInstances(g, recursionAllowed, st)...)
			break
		}
	}
	// and rendered without any call expression: every function is entered from an operation on a
	// value of the application
	fs = append(fs, checkGraphLeaf(g, recursionAllowed, st)...)
	return fs
}

func checkGraphTwoInstances(g Graph, recursionAllowed bool, st *fw.Stats) []finding {
	o := Opts{Recursion: recursionAllowed}
	text := strings.TrimSuffix(g.programText(), fmt.Sprintf("f0(%d)\n", recDepth))
	for i := 0; i < g.N; i++ {
		// f<i>b is no longer a second closure of this module but f<i> of the other instance
		text = strings.Replace(text, fmt.Sprintf("f%db = mk%d()\n", i, i), "", 1)
		text = strings.ReplaceAll(text, fmt.Sprintf("f%db(d - 1)", i), fmt.Sprintf("peer(\"f%d\")(d - 1)", i))
	}
	want, reenters := g.simulate(recursionAllowed)
	pr := runProdTwoInstances(text, o, "f0", recDepth)
	if st != nil {
		st.Evals++
		st.Outcome("recursion:two-instances")
	}
	bad := ""
	isRec := strings.Contains(pr.Runtime, "recursive")
	switch {
	case pr.Panic != "":
		bad = "panic: " + pr.Panic
	case pr.Static:
		bad = fmt.Sprintf("statically rejected at %d:%d: %s", pr.Line, pr.Col, pr.Msg)
	case reenters && !isRec:
		bad = fmt.Sprintf("a function code already active (in the other instance of the program) is re-entered but the run did not fail with the recursion error (error %q)", pr.Runtime)
	case !reenters && pr.Runtime != "":
		bad = fmt.Sprintf("no active function code is re-entered (Recursion=%v) but the run failed: %s", recursionAllowed, pr.Runtime)
	}
	_ = want
	if bad == "" {
		return nil
	}
	group := fmt.Sprintf("recursion(two instances of one program):rec=%d", b2i(recursionAllowed))
	bits := 0
	if recursionAllowed {
		bits = 32
	}
	gg := g
	return []finding{{group + ":-", group + ":-:" + g.String(), bad + " | program (initialised twice; peer(name) is the other instance's global; the host calls f0(4) of the first): " + strings.ReplaceAll(text, "\n", "\\n"),
		Case{Part: "recursion2", Graph: &gg, Opts: bits, Text: text}}}
}

func checkGraphVia(g Graph, recursionAllowed, hostCall bool, st *fw.Stats) []finding {
	o := Opts{Recursion: recursionAllowed}
	text := g.programText()
	want, reenters := g.simulate(recursionAllowed)
	var pr prodResult
	if hostCall {
		text = strings.TrimSuffix(text, fmt.Sprintf("f0(%d)\n", recDepth))
		pr = runProdHostCall(text, o, "f0", recDepth)
		text += fmt.Sprintf("# then the host calls f0(%d) on a fresh thread\n", recDepth)
	} else {
		pr = runProd(text, o)
	}
	if st != nil {
		st.Evals++
		if reenters {
			st.Nontrivial++
		}
		switch {
		case reenters:
			st.Outcome("recursion:re-entry-predicted")
		case recursionAllowed:
			st.Outcome("recursion:allowed-completes")
		default:
			st.Outcome("recursion:no-re-entry")
		}
	}
	bad := ""
	isRec := strings.Contains(pr.Runtime, "recursive")
	switch {
	case pr.Panic != "":
		bad = "panic: " + pr.Panic
	case pr.Static:
		bad = fmt.Sprintf("statically rejected at %d:%d: %s", pr.Line, pr.Col, pr.Msg)
	case reenters && !isRec:
		bad = fmt.Sprintf("a function already active is re-entered but the run did not fail with the recursion error (error %q)", pr.Runtime)
	case !reenters && pr.Runtime != "":
		bad = fmt.Sprintf("no active function is re-entered (Recursion=%v) but the run failed: %s", recursionAllowed, pr.Runtime)
	case fmt.Sprint(pr.Trace) != fmt.Sprint(want):
		bad = fmt.Sprintf("function entries %v, reference predicts %v", pr.Trace, want)
	}
	if bad == "" {
		return nil
	}
	kind := "recursion-missed"
	if !reenters {
		kind = "recursion-spurious"
	}
	if pr.Panic != "" || pr.Static {
		kind = "recursion-broken"
	}
	if hostCall {
		kind += "(entered by the host)"
	}
	group := fmt.Sprintf("%s:rec=%d", kind, b2i(recursionAllowed))
	bits := 0
	if recursionAllowed {
		bits = 32
	}
	gg := g
	return []finding{{group + ":-", group + ":-:" + g.String(), bad + " | program: " + strings.ReplaceAll(text, "\n", "\\n"),
		Case{Part: "recursion", Graph: &gg, Opts: bits, Text: text}}}
}
