package c09

import (
	"fmt"
	"strings"
)

// ---------------------------------------------------------------------------
// base programs
//
// A base program is
//
//	probe()
//	load("m", "L0")
//	G0 = 1 + L0
//	<chain of containers around a leaf block>
//
// where the chain is a word over D (def + call), F (for), I (if-arm), E
// (else-arm), W (while) and the leaf is a block of statements that between
// them use every expression form (list, dict, tuple, conditional, unary,
// binary, index, slice, dot, call with all four argument kinds, lambda with a
// default, list and dict comprehensions with several clauses, nested
// comprehension) and every simple statement form.  Every container body is
// executed exactly once or twice when the program runs, and everything a
// program needs from its host is predeclared: probe, ok, tick.

type Base struct {
	Chain string
	File  *Node
}

func num(i int) *Node    { return lit(fmt.Sprint(i)) }
func str(s string) *Node { return lit(`"` + s + `"`) }

func leaf(x string, extras []string) []*Node {
	sum := id(x)
	for _, e := range extras {
		sum = bin(sum, "+", id(e))
	}
	return []*Node{
		assign(id("va"), list(id(x), call(id("len"), list(id(x))))),
		assign(id("vb"), dict(entry(str("k"), sum))),
		assign(tuple(id("vc"), id("ve")), tuple(id(x), num(2))),
		assign(id("vg"), cond(id("vc"), id("ve"), num(0))),
		assign(id("vh"), call(lambda(params(param("m"), popt("n", id(x))), bin(id("m"), "+", id("n"))), num(1))),
		assign(id("vj"), listcomp(bin(id("y"), "+", id(x)), cfor(id("y"), id("va")), cif(id("y")))),
		assign(id("vl"), dictcomp(id("y"), listcomp(id("z"), cfor(id("z"), list(id("y")))), cfor(id("y"), id("va")))),
		assign(index(id("va"), num(0)), un("-", id(x))),
		aug(index(id("va"), num(0)), "+=", num(1)),
		assign(id("vn"), call(id("ok"), id(x), named("k", slice(id("va"), num(0), num(1))), star(id("va")), starstar(id("vb")))),
		assign(id("vo"), call(dot(str("s"), "upper"))),
	}
}

func build(chain string, k int, x string, extras []string) []*Node {
	if k == len(chain) {
		return leaf(x, extras)
	}
	t := fmt.Sprint(k + 1)
	switch chain[k] {
	case 'D':
		p, u := "p"+t, "u"+t
		body := []*Node{assign(id(u), id(p))}
		body = append(body, build(chain, k+1, p, append(append([]string{}, extras...), u))...)
		body = append(body, ret(id(u)))
		ps := params(param(p), popt("q"+t, id(x)), pstar("r"+t), popt("t"+t, list(id(x))), pstarstar("s"+t))
		return []*Node{
			def("f"+t, ps, block(body...)),
			exprStmt(call(id("f"+t), id(x))),
		}
	case 'F':
		i := "i" + t
		return []*Node{fors(id(i), list(id(x), num(2)), block(build(chain, k+1, x, append(append([]string{}, extras...), i))...))}
	case 'I':
		return []*Node{ifs(id(x), block(build(chain, k+1, x, extras)...), block(N(KPass, "")))}
	case 'E':
		return []*Node{ifs(un("not", id(x)), block(N(KPass, "")), block(build(chain, k+1, x, extras)...))}
	case 'W':
		return []*Node{whiles(call(id("tick"), lit(t)), block(build(chain, k+1, x, extras)...))}
	}
	panic("bad chain")
}

func buildBase(chain string) *Base {
	stmts := []*Node{
		exprStmt(call(id("probe"))),
		load("m", loadItem("L0", "L0")),
		assign(id("G0"), bin(num(1), "+", id("L0"))),
	}
	stmts = append(stmts, build(chain, 0, "G0", nil)...)
	return &Base{Chain: chain, File: N(KFile, "", stmts...)}
}

// chains of exactly the given length
func chainsOfLen(n int) []string {
	out := []string{""}
	for i := 0; i < n; i++ {
		var next []string
		for _, c := range out {
			for _, k := range "DFIEW" {
				next = append(next, c+string(k))
			}
		}
		out = next
	}
	return out
}

// ---------------------------------------------------------------------------
// positions

// blocks returns every statement list of the file (the file itself first).
func blocks(file *Node) []*Node {
	var out []*Node
	out = append(out, file)
	var walk func(n *Node)
	walk = func(n *Node) {
		if n.K == KBlock {
			out = append(out, n)
		}
		for _, c := range n.C {
			walk(c)
		}
	}
	for _, c := range file.C {
		walk(c)
	}
	return out
}

type stmtPos struct {
	block, index int
}

// stmtPositions: every index of every block (the file's first statement stays first).
func stmtPositions(file *Node) []stmtPos {
	var out []stmtPos
	for bi, b := range blocks(file) {
		lo := 0
		if bi == 0 {
			lo = 1
		}
		for i := lo; i <= len(b.C); i++ {
			out = append(out, stmtPos{bi, i})
		}
	}
	return out
}

func isExprKind(k Kind) bool {
	switch k {
	case KIdent, KLit, KList, KTuple, KDict, KUnary, KBinary, KCond, KIndex, KSlice, KDot, KCall, KLambda, KListComp, KDictComp, KParen:
		return true
	}
	return false
}

// exprSlots lists every r-value expression node (pre-order) as (parent, child
// index).  Assignment targets, loop variables and comprehension variables are
// not r-values; the operands inside an index or dot target are.
func exprSlots(file *Node, withLiterals bool) [][2]interface{} {
	var out [][2]interface{}
	var walkExpr func(parent *Node, i int)
	var walkTarget func(t *Node)
	walkTarget = func(t *Node) {
		switch t.K {
		case KIndex:
			walkExpr(t, 0)
			walkExpr(t, 1)
		case KDot:
			walkExpr(t, 0)
		case KTuple, KList, KParen:
			for _, e := range t.C {
				walkTarget(e)
			}
		}
	}
	var walkChildren func(n *Node)
	walkExpr = func(parent *Node, i int) {
		n := parent.C[i]
		if isExprKind(n.K) && (withLiterals || n.K != KLit) {
			out = append(out, [2]interface{}{parent, i})
		}
		walkChildren(n)
	}
	walkChildren = func(n *Node) {
		switch n.K {
		case KLambda:
			for _, p := range n.C[0].C {
				if p.K == KParamOpt {
					walkExpr(p, 0)
				}
			}
			walkExpr(n, 1)
		case KListComp, KDictComp:
			if n.K == KDictComp {
				walkExpr(n.C[0], 0)
				walkExpr(n.C[0], 1)
			} else {
				walkExpr(n, 0)
			}
			for _, cl := range n.C[1:] {
				if cl.K == KCompFor {
					walkTarget(cl.C[0])
					walkExpr(cl, 1)
				} else {
					walkExpr(cl, 0)
				}
			}
		case KCall:
			walkExpr(n, 0)
			for i, a := range n.C[1:] {
				switch a.K {
				case KArgNamed, KArgStar, KArgStarStar:
					walkExpr(a, 0)
				default:
					walkExpr(n, i+1)
				}
			}
		case KDict:
			for _, e := range n.C {
				walkExpr(e, 0)
				walkExpr(e, 1)
			}
		default:
			for i := range n.C {
				walkExpr(n, i)
			}
		}
	}
	var walkStmt func(s *Node)
	walkStmt = func(s *Node) {
		switch s.K {
		case KExprStmt:
			walkExpr(s, 0)
		case KAssign, KAugAssign:
			walkTarget(s.C[0])
			walkExpr(s, 1)
		case KDef:
			for _, p := range s.C[0].C {
				if p.K == KParamOpt {
					walkExpr(p, 0)
				}
			}
			for _, b := range s.C[1].C {
				walkStmt(b)
			}
		case KIf:
			walkExpr(s, 0)
			for _, b := range s.C[1:] {
				for _, st := range b.C {
					walkStmt(st)
				}
			}
		case KFor:
			walkTarget(s.C[0])
			walkExpr(s, 1)
			for _, st := range s.C[2].C {
				walkStmt(st)
			}
		case KWhile:
			walkExpr(s, 0)
			for _, st := range s.C[1].C {
				walkStmt(st)
			}
		case KReturn:
			if len(s.C) > 0 {
				walkExpr(s, 0)
			}
		}
	}
	for _, s := range file.C[1:] { // not the probe call
		walkStmt(s)
	}
	return out
}

// ---------------------------------------------------------------------------
// plants

type Plant struct {
	Name  string
	Stmts func() []*Node // statement plant
	Expr  func() *Node   // expression plant
}

func okCall(args ...*Node) *Node { return call(id("ok"), args...) }

func manyArgs(n int, namedArgs bool) *Node {
	var as []*Node
	for i := 0; i < n; i++ {
		if namedArgs {
			as = append(as, named(fmt.Sprintf("a%d", i), num(i)))
		} else {
			as = append(as, num(i))
		}
	}
	return okCall(as...)
}

// parameter lists that break a rule, and some that do not
var paramPlants = []struct {
	name string
	ps   func() *Node
}{
	{"dup-param", func() *Node { return params(param("a"), param("a")) }},
	{"dup-param-opt", func() *Node { return params(param("a"), popt("a", num(1))) }},
	{"dup-param-star", func() *Node { return params(param("a"), pstar("a")) }},
	{"dup-param-starstar", func() *Node { return params(param("a"), pstarstar("a")) }},
	{"dup-param-kwonly", func() *Node { return params(param("a"), pstar(""), param("a")) }},
	{"required-after-optional", func() *Node { return params(popt("a", num(1)), param("b")) }},
	{"required-after-optional-mid", func() *Node { return params(param("a"), popt("b", num(1)), param("c"), pstar("d")) }},
	{"param-after-kwargs", func() *Node { return params(pstarstar("k"), param("a")) }},
	{"optparam-after-kwargs", func() *Node { return params(pstarstar("k"), popt("a", num(1))) }},
	{"star-after-kwargs", func() *Node { return params(pstarstar("k"), pstar("a")) }},
	{"kwargs-after-kwargs", func() *Node { return params(pstarstar("k"), pstarstar("j")) }},
	{"two-stars", func() *Node { return params(pstar("a"), pstar("b")) }},
	{"two-stars-bare", func() *Node { return params(pstar(""), param("a"), pstar("b")) }},
	{"bare-star-alone", func() *Node { return params(pstar("")) }},
	{"bare-star-then-kwargs", func() *Node { return params(param("a"), pstar(""), pstarstar("k")) }},
	{"ok-kwonly", func() *Node { return params(param("a"), pstar(""), param("b")) }},
	{"ok-required-kwonly-after-optional", func() *Node { return params(popt("a", num(1)), pstar(""), param("b")) }},
	{"ok-full", func() *Node {
		return params(param("a"), popt("b", num(1)), pstar("c"), popt("d", num(2)), param("e"), pstarstar("f"))
	}},
}

func exprPlants() []Plant {
	ps := []Plant{
		{Name: "undefined-name", Expr: func() *Node { return id("zz_undefined") }},
		{Name: "set-reference", Expr: func() *Node { return call(id("set"), list(num(1))) }},
		{Name: "set-bare-reference", Expr: func() *Node { return id("set") }},
		{Name: "repeated-keyword", Expr: func() *Node { return okCall(named("a", num(1)), named("a", num(2))) }},
		{Name: "repeated-keyword-far", Expr: func() *Node { return okCall(num(0), named("a", num(1)), named("b", num(2)), named("a", num(3))) }},
		{Name: "positional-after-named", Expr: func() *Node { return okCall(named("a", num(1)), num(2)) }},
		{Name: "positional-after-star", Expr: func() *Node { return okCall(star(list(num(1))), num(2)) }},
		{Name: "positional-after-starstar", Expr: func() *Node { return okCall(starstar(dict()), num(2)) }},
		{Name: "named-after-star", Expr: func() *Node { return okCall(star(list(num(1))), named("a", num(2))) }},
		{Name: "two-star-args", Expr: func() *Node { return okCall(star(list(num(1))), star(list(num(2)))) }},
		{Name: "256-positional", Expr: func() *Node { return manyArgs(256, false) }},
		{Name: "256-named", Expr: func() *Node { return manyArgs(256, true) }},
		{Name: "ok-255-positional", Expr: func() *Node { return manyArgs(255, false) }},
		{Name: "ok-255-named", Expr: func() *Node { return manyArgs(255, true) }},
		{Name: "ok-call-all-kinds", Expr: func() *Node {
			return okCall(num(1), named("a", num(2)), star(list(num(3))), starstar(dict(entry(str("b"), num(4)))))
		}},
		{Name: "comprehension-call-target", Expr: func() *Node { return listcomp(num(0), cfor(okCall(), list(num(1)))) }},
		{Name: "comprehension-literal-target", Expr: func() *Node { return listcomp(num(0), cfor(num(1), list(num(1)))) }},
		{Name: "undefined-in-lambda-default", Expr: func() *Node { return lambda(params(popt("a", id("zz_undefined"))), num(0)) }},
		{Name: "undefined-in-nested-comprehension", Expr: func() *Node {
			return listcomp(listcomp(id("zz_undefined"), cfor(id("w"), list(id("v")))), cfor(id("v"), list(num(1))))
		}},
		{Name: "ok-comprehension-forward-variable", Expr: func() *Node {
			// [0 for v in [] for w in x2 for x2 in []] : x2 is bound in the comprehension, so the use is legal
			return listcomp(num(0), cfor(id("v"), list()), cfor(id("w"), id("x2")), cfor(id("x2"), list()))
		}},
		{Name: "comprehension-first-operand-own-variable", Expr: func() *Node {
			// the first operand is resolved outside the comprehension, where v9 is not bound
			return listcomp(num(0), cfor(id("v9"), id("v9")))
		}},
	}
	for _, pp := range paramPlants {
		pp := pp
		ps = append(ps, Plant{Name: "lambda-" + pp.name, Expr: func() *Node { return lambda(pp.ps(), num(0)) }})
	}
	return ps
}

func passBlock() *Node { return block(N(KPass, "")) }

func stmtPlants() []Plant {
	one := func(f func() *Node) func() []*Node { return func() []*Node { return []*Node{f()} } }
	ps := []Plant{
		{Name: "break", Stmts: one(func() *Node { return N(KBreak, "") })},
		{Name: "continue", Stmts: one(func() *Node { return N(KContinue, "") })},
		{Name: "return", Stmts: one(func() *Node { return ret(nil) })},
		{Name: "return-value", Stmts: one(func() *Node { return ret(num(1)) })},
		{Name: "load", Stmts: one(func() *Node { return load("m", loadItem("Lz", "Lz")) })},
		{Name: "load-alias", Stmts: one(func() *Node { return load("m", loadItem("zq", "Lz")) })},
		{Name: "load-rebinds-global", Stmts: one(func() *Node { return load("m", loadItem("G0", "G0")) })},
		{Name: "if", Stmts: one(func() *Node { return ifs(num(1), passBlock(), nil) })},
		{Name: "if-else", Stmts: one(func() *Node { return ifs(num(0), passBlock(), passBlock()) })},
		{Name: "for", Stmts: one(func() *Node { return fors(id("zi"), list(num(1)), passBlock()) })},
		{Name: "while", Stmts: one(func() *Node { return whiles(call(id("tick"), num(99)), passBlock()) })},
		{Name: "def-break", Stmts: one(func() *Node { return def("zg", params(), block(N(KBreak, ""))) })},
		{Name: "def-continue", Stmts: one(func() *Node { return def("zg", params(), block(N(KContinue, ""))) })},
		{Name: "def-if-break", Stmts: one(func() *Node {
			return def("zg", params(), block(ifs(num(1), block(N(KBreak, "")), nil)))
		})},
		{Name: "ok-def-for-break", Stmts: one(func() *Node {
			return def("zg", params(), block(fors(id("zi"), list(num(1)), block(N(KBreak, "")))))
		})},
		{Name: "def-for-def-continue", Stmts: one(func() *Node {
			return def("zg", params(), block(fors(id("zi"), list(num(1)), block(def("zh", params(), block(N(KContinue, "")))))))
		})},
		{Name: "def-load", Stmts: one(func() *Node { return def("zg", params(), block(load("m", loadItem("Lz", "Lz")))) })},
		{Name: "ok-def-return-while", Stmts: one(func() *Node {
			return def("zg", params(), block(whiles(call(id("tick"), num(98)), block(ret(num(1))))))
		})},
		{Name: "rebind-assign", Stmts: one(func() *Node { return assign(id("G0"), num(5)) })},
		{Name: "rebind-def", Stmts: one(func() *Node { return def("G0", params(), passBlock()) })},
		{Name: "rebind-for", Stmts: one(func() *Node { return fors(id("G0"), list(num(1)), passBlock()) })},
		{Name: "rebind-augmented", Stmts: one(func() *Node { return aug(id("G0"), "+=", num(1)) })},
		{Name: "rebind-in-tuple", Stmts: one(func() *Node { return assign(tuple(id("G0"), id("zt")), tuple(num(1), num(2))) })},
		{Name: "rebind-loaded-name", Stmts: one(func() *Node { return assign(id("L0"), num(5)) })},
		{Name: "rebind-twice-fresh", Stmts: func() []*Node {
			return []*Node{assign(id("zw"), num(1)), assign(id("zw"), num(2))}
		}},
		{Name: "augmented-tuple-target", Stmts: one(func() *Node { return aug(tuple(id("za"), id("zb")), "+=", num(1)) })},
		{Name: "augmented-list-target", Stmts: one(func() *Node { return aug(list(id("za"), id("zb")), "+=", num(1)) })},
		{Name: "augmented-bare-tuple-target", Stmts: one(func() *Node { return aug(bare(id("za"), id("zb")), "+=", num(1)) })},
		{Name: "assign-to-literal", Stmts: one(func() *Node { return assign(num(1), num(2)) })},
		{Name: "assign-to-string", Stmts: one(func() *Node { return assign(str("s"), num(2)) })},
		{Name: "assign-to-call", Stmts: one(func() *Node { return assign(okCall(), num(2)) })},
		{Name: "assign-to-binary", Stmts: one(func() *Node { return assign(bin(id("G0"), "+", num(1)), num(2)) })},
		{Name: "assign-to-unary", Stmts: one(func() *Node { return assign(un("-", id("G0")), num(2)) })},
		{Name: "assign-to-dict", Stmts: one(func() *Node { return assign(dict(), num(2)) })},
		{Name: "assign-to-lambda", Stmts: one(func() *Node { return assign(paren(lambda(params(), num(0))), num(2)) })},
		{Name: "assign-to-literal-in-list", Stmts: one(func() *Node { return assign(list(id("za"), num(1)), list(num(1), num(2))) })},
		{Name: "assign-to-call-in-tuple", Stmts: one(func() *Node { return assign(tuple(id("za"), okCall()), tuple(num(1), num(2))) })},
		{Name: "augmented-assign-to-call", Stmts: one(func() *Node { return aug(okCall(), "+=", num(2)) })},
		{Name: "for-literal-variable", Stmts: one(func() *Node { return fors(num(1), list(num(1)), passBlock()) })},
		{Name: "for-call-variable", Stmts: one(func() *Node { return fors(okCall(), list(num(1)), passBlock()) })},
		{Name: "undefined-statement", Stmts: one(func() *Node { return exprStmt(id("zz_undefined")) })},
		{Name: "undefined-in-def-default", Stmts: one(func() *Node {
			return def("zg", params(popt("a", id("zz_undefined"))), passBlock())
		})},
		{Name: "undefined-in-unexecuted-def", Stmts: one(func() *Node {
			return def("zg", params(), block(ifs(num(0), block(exprStmt(id("zz_undefined"))), nil)))
		})},
		{Name: "ok-pass", Stmts: one(func() *Node { return N(KPass, "") })},
		{Name: "ok-fresh-assign", Stmts: one(func() *Node { return assign(id("zv"), num(1)) })},
		{Name: "ok-tuple-assign", Stmts: one(func() *Node { return assign(tuple(id("za"), id("zb")), tuple(num(1), num(2))) })},
		{Name: "ok-list-assign", Stmts: one(func() *Node { return assign(list(id("za"), id("zb")), list(num(1), num(2))) })},
		{Name: "ok-bare-tuple-assign", Stmts: one(func() *Node { return assign(bare(id("za"), id("zb")), bare(num(1), num(2))) })},
		{Name: "ok-index-augmented", Stmts: func() []*Node {
			return []*Node{assign(id("zl"), list(num(0))), aug(index(id("zl"), num(0)), "+=", num(1))}
		}},
		{Name: "ok-forward-reference-dead-arm", Stmts: func() []*Node {
			// the name is bound later in the same block, so the (never evaluated) use is legal
			return []*Node{assign(id("zfw"), cond(num(0), num(1), id("zlater2"))), assign(id("zlater2"), num(1))}
		}},
		{Name: "ok-def-forward-global", Stmts: func() []*Node {
			// a function body may refer to a global bound later in the file
			return []*Node{def("zg", params(), block(ret(id("zlater")))), assign(id("zlater"), num(1))}
		}},
	}
	for _, pp := range paramPlants {
		pp := pp
		ps = append(ps, Plant{Name: "def-" + pp.name, Stmts: one(func() *Node { return def("zf", pp.ps(), passBlock()) })})
	}
	return ps
}

// ---------------------------------------------------------------------------
// planting

// plantStmt inserts the plant's statements at the position of a fresh copy.
func plantStmt(base *Node, p Plant, pos stmtPos) *Node {
	f := base.clone()
	b := blocks(f)[pos.block]
	ins := p.Stmts()
	var out []*Node
	out = append(out, b.C[:pos.index]...)
	out = append(out, ins...)
	out = append(out, b.C[pos.index:]...)
	b.C = out
	return f
}

// plantExpr replaces expression slot number slot, X, with (PLANT, X)[1].
func plantExpr(base *Node, p Plant, slot int, withLiterals bool) *Node {
	f := base.clone()
	s := exprSlots(f, withLiterals)[slot]
	parent, i := s[0].(*Node), s[1].(int)
	x := parent.C[i]
	parent.C[i] = index(tuple(p.Expr(), x), num(1))
	return f
}

// describePos names a statement position for violation keys.
func describeStmtPos(f *Node, pos stmtPos) string {
	// path of container kinds from the file to the block
	var path []string
	var find func(n *Node, acc []string) bool
	target := blocks(f)[pos.block]
	find = func(n *Node, acc []string) bool {
		if n == target {
			path = acc
			return true
		}
		for ci, c := range n.C {
			a := acc
			switch n.K {
			case KDef:
				a = append(append([]string{}, acc...), "def")
			case KFor:
				a = append(append([]string{}, acc...), "for")
			case KWhile:
				a = append(append([]string{}, acc...), "while")
			case KIf:
				if ci == 1 {
					a = append(append([]string{}, acc...), "if")
				} else if ci == 2 {
					a = append(append([]string{}, acc...), "else")
				}
			}
			if find(c, a) {
				return true
			}
		}
		return false
	}
	find(f, nil)
	return "file/" + strings.Join(path, "/") + fmt.Sprintf("[%d]", pos.index)
}
