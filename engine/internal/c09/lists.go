package c09

import "fmt"

// Exhaustive enumeration of parameter lists and argument lists: every
// sequence of up to maxListLen items over the item kinds below, in a def, in
// a lambda, and in a call - after an earlier call that uses several keyword
// arguments (so that any per-file scratch state of the checker is warm), and
// with nested calls that themselves carry keyword arguments.  The rules
// (order of parameter kinds, duplicate names, one * and one **, keyword-only
// parameters after a bare *, order of argument kinds, repeated keywords) are
// decided by the reference checker for each list.

const maxListLen = 4

var paramKinds = []string{"req", "opt", "star", "bare", "kwargs", "req-a", "opt-a", "star-a", "kwargs-a"}

// paramItem builds the i-th parameter of kind k; the kinds ending in -a use the
// fixed name a (duplicates), the others a position-specific name.
func paramItem(k string, i int) *Node {
	name := fmt.Sprintf("p%d", i)
	switch k {
	case "req":
		return param(name)
	case "opt":
		return popt(name, num(i))
	case "star":
		return pstar(name)
	case "bare":
		return pstar("")
	case "kwargs":
		return pstarstar(name)
	case "star-a": // *a and **a take part in the duplicate-name rule like any other parameter
		return pstar("a")
	case "kwargs-a":
		return pstarstar("a")
	case "req-a":
		return param("a")
	case "opt-a":
		return popt("a", num(1))
	}
	panic(k)
}

var argKinds = []string{"pos", "named-a", "named-b", "named-a-nested", "pos-nested", "star", "starstar"}

func argItem(k string, i int) *Node {
	switch k {
	case "pos":
		return num(i)
	case "named-a":
		return named("a", num(i))
	case "named-b":
		return named("b", num(i))
	case "named-a-nested": // a keyword argument whose value is a call with keywords of its own
		return named("c", okCall(named("a", num(1)), named("d", num(2))))
	case "pos-nested":
		return okCall(named("a", num(1)), named("b", num(2)))
	case "star":
		return star(list(num(i)))
	case "starstar":
		return starstar(dict())
	}
	panic(k)
}

// listProgram returns program number idx of the family, or nil past the end.
// Layout of the index space: for each length 0..maxListLen, each sequence of
// kinds, three programs: def, lambda (parameter lists), then calls.
func forEachListProgram(f func(idx int64, name string, file *Node) bool) {
	var idx int64
	emit := func(name string, stmts ...*Node) bool {
		all := append([]*Node{exprStmt(call(id("probe")))}, stmts...)
		ok := f(idx, name, N(KFile, "", all...))
		idx++
		return ok
	}
	seqs := func(kinds []string, n int, g func(seq []string) bool) bool {
		seq := make([]string, n)
		var rec func(i int) bool
		rec = func(i int) bool {
			if i == n {
				return g(seq)
			}
			for _, k := range kinds {
				seq[i] = k
				if !rec(i + 1) {
					return false
				}
			}
			return true
		}
		return rec(0)
	}
	for n := 0; n <= maxListLen; n++ {
		ok := seqs(paramKinds, n, func(seq []string) bool {
			mk := func() *Node {
				var ps []*Node
				for i, k := range seq {
					ps = append(ps, paramItem(k, i))
				}
				return params(ps...)
			}
			name := fmt.Sprint(seq)
			return emit("def"+name, def("zf", mk(), passBlock())) &&
				emit("lambda"+name, assign(id("zl"), lambda(mk(), num(0))))
		})
		if !ok {
			return
		}
	}
	// long keyword lists: n distinct names, then one more that repeats the name at position j
	// (a checker may keep the first few names apart from the rest)
	for _, n := range []int{7, 8, 9, 10, 16, 17, 33} {
		for j := -1; j < n; j++ {
			var as []*Node
			for i := 0; i < n; i++ {
				as = append(as, named(fmt.Sprintf("k%d", i), num(i)))
			}
			name := fmt.Sprintf("call[%d distinct keywords]", n)
			if j >= 0 {
				as = append(as, named(fmt.Sprintf("k%d", j), num(99)))
				name = fmt.Sprintf("call[%d distinct keywords, then k%d again]", n, j)
			}
			if !emit(name, exprStmt(okCall(as...))) {
				return
			}
		}
	}
	for n := 0; n <= maxListLen; n++ {
		ok := seqs(argKinds, n, func(seq []string) bool {
			mk := func() *Node {
				var as []*Node
				for i, k := range seq {
					as = append(as, argItem(k, i))
				}
				return okCall(as...)
			}
			name := fmt.Sprint(seq)
			warm := exprStmt(okCall(named("a", num(1)), named("b", num(2)), named("c", num(3))))
			return emit("call"+name, exprStmt(mk())) &&
				emit("warm-call"+name, warm, exprStmt(mk()))
		})
		if !ok {
			return
		}
	}
}
