package c09

import (
	"strings"
)

// A small syntax tree of our own.  Programs are generated and mutated as
// trees, rendered to text for the real implementation, and judged by the
// reference checker on the tree (using the positions the renderer recorded).

type Kind int

const (
	KFile Kind = iota
	// statements
	KExprStmt  // [e]
	KAssign    // [lhs, rhs]
	KAugAssign // S=op, [lhs, rhs]
	KDef       // S=name, [Params, Block]; Op pos = name
	KIf        // [cond, Block, Block?]
	KFor       // [vars, x, Block]
	KWhile     // [cond, Block]
	KReturn    // [e]?
	KBreak
	KContinue
	KPass
	KLoad     // S=module, [LoadItem...]
	KLoadItem // S=local name, S2=original name (rendered "name" if equal, else local="orig")
	KBlock    // statements
	// expressions
	KIdent     // S
	KLit       // S = literal text
	KList      // elems
	KTuple     // elems; S=="bare" renders without parentheses
	KDict      // DictEntry...
	KDictEntry // [k, v]
	KUnary     // S=op, [x]
	KBinary    // S=op, [x, y]
	KCond      // [then, cond, else]
	KIndex     // [x, i]
	KSlice     // [x, lo, hi]
	KDot       // S=attr, [x]
	KCall      // [fn, args...]
	KLambda    // [Params, body]
	KListComp  // [body, clauses...]
	KDictComp  // [DictEntry, clauses...]
	KParen     // [x]
	// call arguments other than plain expressions
	KArgNamed    // S=name, [e]
	KArgStar     // [e]
	KArgStarStar // [e]
	// parameters
	KParams        // params...
	KParam         // S=name
	KParamOpt      // S=name, [default]
	KParamStar     // S=name or ""
	KParamStarStar // S=name
	// comprehension clauses
	KCompFor // [vars, x]
	KCompIf  // [cond]
)

type Node struct {
	K  Kind
	S  string
	S2 string
	C  []*Node

	// set by the renderer; columns are 1-based, ECol is exclusive
	Line, Col, ECol int
	OpLine, OpCol   int // KDef: the name; KLoadItem: the bound name
	Tag             string
}

func N(k Kind, s string, c ...*Node) *Node { return &Node{K: k, S: s, C: c} }

// builders
func id(s string) *Node                     { return N(KIdent, s) }
func lit(s string) *Node                    { return N(KLit, s) }
func list(e ...*Node) *Node                 { return N(KList, "", e...) }
func tuple(e ...*Node) *Node                { return N(KTuple, "", e...) }
func bare(e ...*Node) *Node                 { return N(KTuple, "bare", e...) }
func dict(e ...*Node) *Node                 { return N(KDict, "", e...) }
func entry(k, v *Node) *Node                { return N(KDictEntry, "", k, v) }
func un(op string, x *Node) *Node           { return N(KUnary, op, x) }
func bin(x *Node, op string, y *Node) *Node { return N(KBinary, op, x, y) }
func cond(t, c, f *Node) *Node              { return N(KCond, "", t, c, f) }
func index(x, i *Node) *Node                { return N(KIndex, "", x, i) }
func slice(x, lo, hi *Node) *Node           { return N(KSlice, "", x, lo, hi) }
func dot(x *Node, a string) *Node           { return N(KDot, a, x) }
func call(fn *Node, a ...*Node) *Node       { return N(KCall, "", append([]*Node{fn}, a...)...) }
func named(n string, e *Node) *Node         { return N(KArgNamed, n, e) }
func star(e *Node) *Node                    { return N(KArgStar, "", e) }
func starstar(e *Node) *Node                { return N(KArgStarStar, "", e) }
func params(p ...*Node) *Node               { return N(KParams, "", p...) }
func param(n string) *Node                  { return N(KParam, n) }
func popt(n string, d *Node) *Node          { return N(KParamOpt, n, d) }
func pstar(n string) *Node                  { return N(KParamStar, n) }
func pstarstar(n string) *Node              { return N(KParamStarStar, n) }
func lambda(ps *Node, b *Node) *Node        { return N(KLambda, "", ps, b) }
func listcomp(b *Node, cl ...*Node) *Node   { return N(KListComp, "", append([]*Node{b}, cl...)...) }
func dictcomp(k, v *Node, cl ...*Node) *Node {
	return N(KDictComp, "", append([]*Node{entry(k, v)}, cl...)...)
}
func cfor(v, x *Node) *Node  { return N(KCompFor, "", v, x) }
func cif(c *Node) *Node      { return N(KCompIf, "", c) }
func paren(x *Node) *Node    { return N(KParen, "", x) }
func block(s ...*Node) *Node { return N(KBlock, "", s...) }

func exprStmt(e *Node) *Node                      { return N(KExprStmt, "", e) }
func assign(l, r *Node) *Node                     { return N(KAssign, "", l, r) }
func aug(l *Node, op string, r *Node) *Node       { return N(KAugAssign, op, l, r) }
func def(name string, ps *Node, body *Node) *Node { return N(KDef, name, ps, body) }
func ifs(c *Node, t *Node, f *Node) *Node {
	if f == nil {
		return N(KIf, "", c, t)
	}
	return N(KIf, "", c, t, f)
}
func fors(v, x, body *Node) *Node { return N(KFor, "", v, x, body) }
func whiles(c, body *Node) *Node  { return N(KWhile, "", c, body) }
func ret(e *Node) *Node {
	if e == nil {
		return N(KReturn, "")
	}
	return N(KReturn, "", e)
}
func load(module string, items ...*Node) *Node { return N(KLoad, module, items...) }
func loadItem(local, orig string) *Node        { return &Node{K: KLoadItem, S: local, S2: orig} }

// clone copies a tree (positions are not copied).
func (n *Node) clone() *Node {
	if n == nil {
		return nil
	}
	m := &Node{K: n.K, S: n.S, S2: n.S2, Tag: n.Tag}
	for _, c := range n.C {
		m.C = append(m.C, c.clone())
	}
	return m
}

// ---------------------------------------------------------------------------
// renderer

type writer struct {
	sb        strings.Builder
	line, col int
	indent    int
}

func (w *writer) emit(s string) {
	w.sb.WriteString(s)
	w.col += len(s)
}

func (w *writer) nl() {
	w.sb.WriteByte('\n')
	w.line++
	w.col = 1
}

func (w *writer) startLine() {
	for i := 0; i < w.indent; i++ {
		w.emit("    ")
	}
}

// Render produces the program text and records positions in the tree.
func Render(file *Node) string {
	w := &writer{line: 1, col: 1}
	file.Line, file.Col = 1, 1
	for _, s := range file.C {
		w.stmt(s)
	}
	return w.sb.String()
}

func (w *writer) block(b *Node) {
	w.indent++
	b.Line, b.Col = w.line, w.col
	if len(b.C) == 0 {
		w.startLine()
		w.emit("pass")
		w.nl()
	}
	for _, s := range b.C {
		w.stmt(s)
	}
	w.indent--
}

func (w *writer) stmt(n *Node) {
	w.startLine()
	n.Line, n.Col = w.line, w.col
	switch n.K {
	case KExprStmt:
		w.expr(n.C[0], false)
	case KAssign:
		w.expr(n.C[0], false)
		w.emit(" = ")
		w.expr(n.C[1], false)
	case KAugAssign:
		w.expr(n.C[0], false)
		w.emit(" " + n.S + " ")
		w.expr(n.C[1], false)
	case KDef:
		w.emit("def ")
		n.OpLine, n.OpCol = w.line, w.col
		w.emit(n.S)
		w.emit("(")
		w.params(n.C[0])
		w.emit("):")
		n.ECol = w.col
		w.nl()
		w.block(n.C[1])
		return
	case KIf:
		w.emit("if ")
		w.expr(n.C[0], true)
		w.emit(":")
		n.ECol = w.col
		w.nl()
		w.block(n.C[1])
		if len(n.C) > 2 {
			w.startLine()
			w.emit("else:")
			w.nl()
			w.block(n.C[2])
		}
		return
	case KFor:
		w.emit("for ")
		w.expr(n.C[0], false)
		w.emit(" in ")
		w.expr(n.C[1], true)
		w.emit(":")
		n.ECol = w.col
		w.nl()
		w.block(n.C[2])
		return
	case KWhile:
		w.emit("while ")
		w.expr(n.C[0], true)
		w.emit(":")
		n.ECol = w.col
		w.nl()
		w.block(n.C[1])
		return
	case KReturn:
		w.emit("return")
		if len(n.C) > 0 {
			w.emit(" ")
			w.expr(n.C[0], false)
		}
	case KBreak:
		w.emit("break")
	case KContinue:
		w.emit("continue")
	case KPass:
		w.emit("pass")
	case KLoad:
		w.emit("load(\"" + n.S + "\"")
		for _, it := range n.C {
			w.emit(", ")
			it.Line, it.Col = w.line, w.col
			if it.S == it.S2 {
				it.OpLine, it.OpCol = w.line, w.col+1
				w.emit("\"" + it.S + "\"")
			} else {
				it.OpLine, it.OpCol = w.line, w.col
				w.emit(it.S + "=\"" + it.S2 + "\"")
			}
			it.ECol = w.col
		}
		w.emit(")")
	default:
		panic("render: not a statement")
	}
	n.ECol = w.col
	w.nl()
}

func (w *writer) params(ps *Node) {
	ps.Line, ps.Col = w.line, w.col
	for i, p := range ps.C {
		if i > 0 {
			w.emit(", ")
		}
		p.Line, p.Col = w.line, w.col
		switch p.K {
		case KParam:
			w.emit(p.S)
		case KParamOpt:
			w.emit(p.S)
			p.OpLine, p.OpCol = w.line, w.col
			w.emit("=")
			w.expr(p.C[0], true)
		case KParamStar:
			w.emit("*" + p.S)
		case KParamStarStar:
			w.emit("**" + p.S)
		}
		p.ECol = w.col
	}
	ps.ECol = w.col
}

func needsParens(k Kind) bool {
	return k == KBinary || k == KUnary || k == KCond || k == KLambda
}

// expr renders an expression; tight requests parentheses around operators,
// conditionals, lambdas and bare tuples.
func (w *writer) expr(n *Node, tight bool) {
	wrap := tight && (needsParens(n.K) || (n.K == KTuple && n.S == "bare"))
	n.Line, n.Col = w.line, w.col
	if wrap {
		w.emit("(")
	}
	switch n.K {
	case KIdent, KLit:
		w.emit(n.S)
	case KList:
		w.emit("[")
		w.elems(n.C)
		w.emit("]")
	case KTuple:
		if n.S != "bare" {
			w.emit("(")
		}
		w.elems(n.C)
		if len(n.C) == 1 {
			w.emit(",")
		}
		if n.S != "bare" {
			w.emit(")")
		}
	case KDict:
		w.emit("{")
		w.elems(n.C)
		w.emit("}")
	case KDictEntry:
		w.expr(n.C[0], true)
		w.emit(": ")
		w.expr(n.C[1], true)
	case KUnary:
		w.emit(n.S)
		if n.S == "not" {
			w.emit(" ")
		}
		w.expr(n.C[0], true)
	case KBinary:
		w.expr(n.C[0], true)
		w.emit(" " + n.S + " ")
		w.expr(n.C[1], true)
	case KCond:
		w.expr(n.C[0], true)
		w.emit(" if ")
		w.expr(n.C[1], true)
		w.emit(" else ")
		w.expr(n.C[2], true)
	case KIndex:
		w.expr(n.C[0], true)
		w.emit("[")
		w.expr(n.C[1], false)
		w.emit("]")
	case KSlice:
		w.expr(n.C[0], true)
		w.emit("[")
		w.expr(n.C[1], true)
		w.emit(":")
		w.expr(n.C[2], true)
		w.emit("]")
	case KDot:
		w.expr(n.C[0], true)
		w.emit("." + n.S)
	case KCall:
		w.expr(n.C[0], true)
		w.emit("(")
		for i, a := range n.C[1:] {
			if i > 0 {
				w.emit(", ")
			}
			switch a.K {
			case KArgNamed:
				a.Line, a.Col = w.line, w.col
				w.emit(a.S + "=")
				w.expr(a.C[0], true)
				a.ECol = w.col
			case KArgStar:
				a.Line, a.Col = w.line, w.col
				w.emit("*")
				w.expr(a.C[0], true)
				a.ECol = w.col
			case KArgStarStar:
				a.Line, a.Col = w.line, w.col
				w.emit("**")
				w.expr(a.C[0], true)
				a.ECol = w.col
			default:
				w.expr(a, true)
			}
		}
		w.emit(")")
	case KLambda:
		w.emit("lambda")
		if len(n.C[0].C) > 0 {
			w.emit(" ")
		}
		w.params(n.C[0])
		w.emit(": ")
		w.expr(n.C[1], true)
	case KListComp, KDictComp:
		open, close := "[", "]"
		if n.K == KDictComp {
			open, close = "{", "}"
		}
		w.emit(open)
		w.expr(n.C[0], true)
		for _, cl := range n.C[1:] {
			cl.Line, cl.Col = w.line, w.col+1
			if cl.K == KCompFor {
				w.emit(" for ")
				w.expr(cl.C[0], false)
				w.emit(" in ")
				w.expr(cl.C[1], true)
			} else {
				w.emit(" if ")
				w.expr(cl.C[0], true)
			}
			cl.ECol = w.col
		}
		w.emit(close)
	case KParen:
		w.emit("(")
		w.expr(n.C[0], false)
		w.emit(")")
	default:
		panic("render: not an expression")
	}
	if wrap {
		w.emit(")")
	}
	n.ECol = w.col
}

func (w *writer) elems(es []*Node) {
	for i, e := range es {
		if i > 0 {
			w.emit(", ")
		}
		w.expr(e, true)
	}
}
