// Package c01 decides C01: execution through the production pipeline agrees
// with the reference semantics, for every program of every profile up to the
// completed size level (shape E: small-scope exhaustive enumeration against
// the reference evaluator in internal/prog).
package c01

import (
	"encoding/json"
	"fmt"
	"strings"

	"verif/internal/fw"
	"verif/internal/prog"
)

type kase struct {
	Profile string       `json:"profile"`
	Level   int          `json:"level"`
	Index   int64        `json:"index"`
	Opts    prog.Options `json:"opts"`
	Src     string       `json:"src"`
}

func optionVariants(need prog.Options, idx int64) []prog.Options {
	all := prog.Options{Set: true, While: true, TopLevelControl: true, GlobalReassign: true, Recursion: true, LoadBindsGlobally: need.LoadBindsGlobally}
	out := []prog.Options{need}
	if all != need {
		out = append(out, all)
	}
	if idx%64 == 0 {
		for m := 0; m < 16; m++ {
			o := need
			o.Set = o.Set || m&1 != 0
			o.While = o.While || m&2 != 0
			o.Recursion = o.Recursion || m&4 != 0
			o.TopLevelControl = o.TopLevelControl || m&8 != 0
			dup := false
			for _, x := range out {
				if x == o {
					dup = true
				}
			}
			if !dup {
				out = append(out, o)
			}
		}
	}
	return out
}

// checkOne runs one program under one option vector on both sides.
func checkOne(p prog.Program, o prog.Options, st *fw.Stats) (src string, diff string) {
	return checkOneAnnounced(p, o, st, nil)
}

// announce, if non-nil, is told the rendered source before anything is
// executed (so that a process death is attributed to the program); if it
// returns false the program is not executed.
func checkOneAnnounced(p prog.Program, o prog.Options, st *fw.Stats, announce func(src string) bool) (src string, diff string) {
	tree := p.Instantiate()
	src = prog.Render(tree)
	if announce != nil && !announce(src) {
		return src, ""
	}
	prod, again := prog.RunProdTwice(src, o)
	st.Evals++
	if prod.Static {
		st.Count("static_reject."+p.Profile, 1)
		return src, ""
	}
	ref := prog.RunRef(tree, o)
	if prod.Inconcl != "" || ref.Inconcl != "" {
		st.Count("inconclusive_budget", 1)
		return src, ""
	}
	if len(ref.Trace) > 0 || ref.Failed {
		st.Nontrivial++
	}
	switch {
	case ref.Failed && ref.CallPos != (prog.Pos{}):
		st.Outcome(p.Profile + ":bind-failure")
	case ref.Failed:
		st.Outcome(p.Profile + ":failure")
	default:
		st.Outcome(fmt.Sprintf("%s:ok:%d-events", p.Profile, min(len(ref.Trace), 12)))
	}
	if d := prog.Compare(prod, ref); d != "" {
		return src, d
	}
	// the same compiled program initialised once more on the same thread observes the same
	if again != nil && prod.Inconcl == "" && again.Inconcl == "" {
		st.Count("second_executions_on_the_same_thread", 1)
		switch {
		case again.Panic != "":
			return src, "the second execution of the same compiled program on the same thread panicked: " + again.Panic
		case strings.Join(again.Trace, "|") != strings.Join(prod.Trace, "|") || again.Globals != prod.Globals || again.Failed != prod.Failed ||
			again.ErrPos != prod.ErrPos || strings.Join(again.Frames, " ") != strings.Join(prod.Frames, " ") || again.Steps != prod.Steps:
			return src, fmt.Sprintf("the second execution of the same compiled program on the same thread differs from the first: trace %v vs %v; globals %s vs %s; failed %v@%v [%s] steps %d vs %v@%v [%s] steps %d",
				again.Trace, prod.Trace, again.Globals, prod.Globals, again.Failed, again.ErrPos, strings.Join(again.Frames, " "), again.Steps, prod.Failed, prod.ErrPos, strings.Join(prod.Frames, " "), prod.Steps)
		}
	}
	// the program written by Program.Write and read back by CompiledProgram observes the same
	if rel := prog.RunProdReloaded(src, o); rel != nil && prod.Inconcl == "" && rel.Inconcl == "" {
		st.Count("executions_of_the_program_read_back", 1)
		switch {
		case rel.Panic != "":
			return src, "the program written and read back: " + rel.Panic
		case strings.Join(rel.Trace, "|") != strings.Join(prod.Trace, "|") || rel.Globals != prod.Globals || rel.Failed != prod.Failed ||
			rel.ErrPos != prod.ErrPos || strings.Join(rel.Frames, " ") != strings.Join(prod.Frames, " ") || rel.Steps != prod.Steps:
			return src, fmt.Sprintf("the program written and read back differs from the program as compiled: trace %v vs %v; globals %s vs %s; failed %v@%v [%s] steps %d vs %v@%v [%s] steps %d",
				rel.Trace, prod.Trace, rel.Globals, prod.Globals, rel.Failed, rel.ErrPos, strings.Join(rel.Frames, " "), rel.Steps, prod.Failed, prod.ErrPos, strings.Join(prod.Frames, " "), prod.Steps)
		}
	}
	return src, ""
}

func clip(s string, n int) string {
	if len(s) > n {
		return s[:n] + fmt.Sprintf("...(%d bytes)", len(s))
	}
	return s
}

func allProfiles() []prog.Profile {
	return append(prog.Profiles(), prog.ScaleProfile(), prog.SiblingsProfile())
}

func worker(c *fw.Ctx) *fw.Stats {
	st := fw.NewStats()
	maxLevel := map[string]int{}
	for _, pf := range allProfiles() {
		maxLevel[pf.Name] = pf.MaxLevel
		if !c.Thorough() {
			switch pf.Name {
			case "expr":
				maxLevel[pf.Name] = 5
			case "control":
				maxLevel[pf.Name] = 5
			case "scope":
				maxLevel[pf.Name] = 2
			case "comp":
				maxLevel[pf.Name] = 2
			case "load":
				maxLevel[pf.Name] = 2
			}
		}
	}
	// iterative deepening across profiles: level 1 of every profile, then level 2, ...
	for level := 1; level <= 8; level++ {
		for _, pf := range allProfiles() {
			if level > maxLevel[pf.Name] {
				continue
			}
			var idx, mine int64 = -1, 0
			cut := false
			nviol := 0
			pf.Level(level, func(p prog.Program) bool {
				idx++
				if !c.Mine(idx) {
					return true
				}
				mine++
				if mine%64 == 0 && c.Expired() {
					cut = true
					return false
				}
				variants := optionVariants(p.Need, idx)
				if p.Profile == "load" {
					n := p.Need
					n.LoadBindsGlobally = true
					n.GlobalReassign = true
					variants = append(variants, n)
				}
				for _, o := range variants {
					o := o
					src, diff := checkOneAnnounced(p, o, st, func(src string) bool {
						kb, _ := json.Marshal(kase{Profile: p.Profile, Level: level, Index: idx, Opts: o, Src: src})
						return c.Risky(string(kb))
					})
					if idx%50021 == 0 && o == p.Need {
						st.Sample(map[string]any{"profile": p.Profile, "level": level, "options": o.String(), "source": src})
					}
					if diff != "" && nviol < 10 {
						nviol++
						k := kase{Profile: p.Profile, Level: level, Index: idx, Opts: o, Src: src}
						st.Violate(fmt.Sprintf("%s/L%d/#%d/%s", p.Profile, level, idx, o.String()), clip(diff, 3000)+" | program: "+clip(src, 3000), k)
					}
				}
				return true
			})
			name := fmt.Sprintf("%s:L%d", pf.Name, level)
			if cut {
				if c.Shard == 0 {
					st.Cut = append(st.Cut, name)
				}
				return st
			}
			if c.Shard == 0 {
				st.Levels = append(st.Levels, name)
				st.Count("programs."+name, idx+1)
			}
		}
	}
	return st
}

// A program that kills the worker process (a fatal Go error such as a stack
// overflow cannot be recovered) is attributed to the program that was
// running; the shard restarts after it.
func run(c *fw.Ctx) *fw.Stats {
	return c.Sharded(0, func(ci fw.CrashInfo, st *fw.Stats) {
		var k kase
		if json.Unmarshal([]byte(ci.Key), &k) != nil {
			fw.Fatal("worker %d died outside any program: %s", ci.Shard, ci.Stderr)
		}
		first := ci.Stderr
		if len(first) > 300 {
			first = first[:300]
		}
		st.Violate(fmt.Sprintf("%s/L%d/#%d/%s", k.Profile, k.Level, k.Index, k.Opts.String()),
			"process death while the production pipeline or the reference ran this program (the reference evaluator only walks the tree, so this is the production side): "+first+" | program: "+k.Src, k)
	})
}

func replay(c *fw.Ctx, raw json.RawMessage) []fw.Viol {
	var k kase
	if err := json.Unmarshal(raw, &k); err != nil {
		fw.Fatal("bad case: %v", err)
	}
	for _, pf := range allProfiles() {
		if pf.Name != k.Profile {
			continue
		}
		var idx int64 = -1
		var out []fw.Viol
		pf.Level(k.Level, func(p prog.Program) bool {
			idx++
			if idx != k.Index {
				return true
			}
			st := fw.NewStats()
			src, diff := checkOne(p, k.Opts, st)
			if src != k.Src {
				fw.Fatal("replay: generator produced a different program for %s L%d #%d", k.Profile, k.Level, k.Index)
			}
			if diff != "" {
				out = append(out, fw.Viol{Key: fmt.Sprintf("%s/L%d/#%d/%s", k.Profile, k.Level, k.Index, k.Opts.String()), What: diff})
			}
			return false
		})
		return out
	}
	return nil
}

func init() {
	fw.Register(&fw.Prop{
		ID:    "C01",
		Level: "exploration",
		Rule: "every program of each grammar profile (expr, plus, assign, control, scope, call, load, comp, fold, escape, alias, chains, siblings; scale: 15 templates in which one table of the compiled form - globals, locals, constants, functions, free variables, defaults, arguments, jump distances - has n members, n on both sides of 2^7, 2^8, 2^14 and 2^16) of size level n, n = 1, 2, ... (iterative deepening), " +
			"rendered to source and executed by the production pipeline and by the reference evaluator under the needed options, all options on, and (every 64th) all 16 combinations of set/while/recursion/top-level control; " +
			"compared: probe trace with argument values, final globals with aliasing, success/failure and the position of the failing operation; " +
			"every statically valid program is also initialised a second time from the same compiled Program on the same thread and must observe the same, and so must the program written by Program.Write and read back by CompiledProgram, in a fresh environment; non-trivial = program runs in which at least one probe fired or the program failed",
		Run: run, Worker: worker, Replay: replay,
		Assumptions: []string{
			"primitive value operations are shared with production (exported starlark.Binary/Compare/Call/Iterate): their semantics are the subject of C10-C13",
			"programs rejected statically by the production resolver are skipped here (C09 decides static rules); their number per profile is reported",
			"error wording is not compared",
		},
		BudgetQuick: 75, BudgetThorough: 1200,
	})
}
