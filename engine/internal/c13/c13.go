// Package c13 decides C13: sequence and string operations follow the
// specification for all arguments.
//
// Shape E: every receiver of length 0..5 over a 3-letter alphabet (plus one
// distinct-letter receiver per length 6..8) as string, bytes, list and tuple,
// every range over [-4,4]^3, and for each operation every argument tuple of
// the bounded grids below are executed by the real interpreter (through
// compiled Starlark helper functions, so that the SLICE/INDEX/CALL paths of
// the VM are the ones exercised) and compared with a reference derived from
// doc/spec.md that runs in one Python 3 batch process per worker
// (oracle.py; its header lists the documented deviations from Python).
// Compared: the canonical structural value, or failure-vs-success; never
// error wording.
package c13

import (
	"bytes"
	"encoding/json"
	"fmt"
	"math/big"
	"math/rand"
	"os"
	"runtime"
	"sort"
	"strings"
	"time"

	"verif/internal/fw"
)

// A family is one request shape: an operation and its argument axes; the
// cases are the cartesian product of the axes (last axis fastest).
type family struct {
	level string
	op    string
	axes  [][]any
	extra bool // seeded random receivers: counted as sampled_extra only
}

func (f *family) size() int64 {
	n := int64(1)
	for _, ax := range f.axes {
		n *= int64(len(ax))
	}
	return n
}

func (f *family) ident() string {
	// canonical identity of the request: level, op, first coordinate of every axis
	var sb strings.Builder
	sb.WriteString(f.level + "|" + f.op)
	for _, ax := range f.axes {
		b, _ := json.Marshal(ax[0])
		sb.WriteString("|")
		sb.Write(b)
		fmt.Fprintf(&sb, "#%d", len(ax))
	}
	return sb.String()
}

// ---------------------------------------------------------------------------
// alphabets and grids

const alpha = "aB "

var longRecv = []string{"aBcDeF", "aBcDeFg", "aBcDeFgH"}

func stringsOver(alphabet string, n int) []string {
	if n == 0 {
		return []string{""}
	}
	var out []string
	for _, p := range stringsOver(alphabet, n-1) {
		for i := 0; i < len(alphabet); i++ {
			out = append(out, p+alphabet[i:i+1])
		}
	}
	return out
}

func stringsUpTo(alphabet string, n int) []string {
	var out []string
	for k := 0; k <= n; k++ {
		out = append(out, stringsOver(alphabet, k)...)
	}
	return out
}

var seqTypes = []string{"string", "bytes", "list", "tuple"}

func asType(t, s string) any {
	switch t {
	case "string":
		return s
	case "bytes":
		return vBytes(s)
	}
	elems := make([]any, len(s))
	for i := range s {
		elems[i] = s[i : i+1]
	}
	if t == "list" {
		return vList(elems...)
	}
	return vTuple(elems...)
}

func hugeInts() []any {
	return []any{pow2(31, false), pow2(31, true), pow2(40, false), pow2(40, true), pow2(70, false), pow2(70, true)}
}

// idxAxis: omitted, None, every integer in [-n-3, n+3], and the huge values.
func idxAxis(n int, withAbsent bool) []any {
	var ax []any
	if withAbsent {
		ax = append(ax, vAbsent())
	}
	ax = append(ax, nil)
	for i := -n - 3; i <= n+3; i++ {
		ax = append(ax, i)
	}
	return append(ax, hugeInts()...)
}

func strideAxis(n int) []any {
	ax := []any{vAbsent(), nil}
	seen := map[int]bool{}
	for _, s := range []int{1, -1, 2, -2, 3, -3, n + 1, -(n + 1), 0} {
		if !seen[s] {
			seen[s] = true
			ax = append(ax, s)
		}
	}
	return append(ax, pow2(31, false), pow2(31, true), pow2(70, false), pow2(70, true))
}

func anyStrings(ss []string) []any {
	out := make([]any, len(ss))
	for i, s := range ss {
		out[i] = s
	}
	return out
}

func one(x any) []any { return []any{x} }

// needles: all strings of length <= 2 over the alphabet (13, including "").
func needles() []string { return stringsUpTo(alpha, 2) }

// ---------------------------------------------------------------------------
// enumeration

func receiverFamilies(level string, recvs []string, thorough, extra bool) []*family {
	// quick tier, length 5: the sub-range methods use the needles of length <= 1
	// (the full needle set runs on lengths 0..4 and 6..8, and on length 5 in thorough)
	reduced := !thorough && len(recvs) > 0 && len(recvs[0]) == 5
	var fs []*family
	add := func(op string, axes ...[]any) {
		fs = append(fs, &family{level: level, op: op, axes: axes, extra: extra})
	}
	nd := anyStrings(needles())
	// tuples of needles for startswith/endswith
	var tuples []any
	short := stringsUpTo(alpha, 1)
	if thorough && len(recvs) > 0 && len(recvs[0]) <= 4 {
		short = needles()
	}
	tuples = append(tuples, vTuple())
	for _, a := range short {
		tuples = append(tuples, vTuple(a))
	}
	for _, a := range short {
		for _, b := range short {
			tuples = append(tuples, vTuple(a, b))
		}
	}
	subNeedles := nd
	if reduced {
		subNeedles = anyStrings(stringsUpTo(alpha, 1))
		tuples = []any{vTuple(), vTuple("a"), vTuple("", "B"), vTuple("B", "a"), vTuple(" ", " ")}
	}
	for _, s := range recvs {
		n := len(s)
		ix := idxAxis(n, true)
		// index and slice, all four sequence types
		for _, t := range seqTypes {
			x := asType(t, s)
			add("slice", one(x), ix, ix, strideAxis(n))
			add("index", one(x), idxAxis(n, false))
		}
		// sub-range methods
		for _, m := range []string{"find", "rfind", "index", "rindex", "count"} {
			add("find", one(s), one(m), subNeedles, ix, ix)
		}
		for _, m := range []string{"startswith", "endswith"} {
			add("swith", one(s), one(m), append(append([]any{}, subNeedles...), tuples...), ix, ix)
		}
		// split family
		seps := append([]any{vAbsent(), nil}, nd...)
		maxs := []any{vAbsent(), -1, 0, 1, 2, n, pow2(31, false)}
		add("split", one(s), one("split"), seps, maxs)
		// rsplit(None, m) preallocates m+1 slots: the huge count is only used with a separator
		add("split", one(s), one("rsplit"), nd, maxs)
		add("split", one(s), one("rsplit"), []any{vAbsent(), nil}, []any{vAbsent(), -1, 0, 1, 2, n, 1 << 16})
		add("partition", one(s), []any{"partition", "rpartition"}, nd)
		add("strip", one(s), []any{"strip", "lstrip", "rstrip"}, append([]any{vAbsent()}, nd...))
		add("replace", one(s), nd, []any{"", "x", "a", "aB"}, []any{vAbsent(), -1, 0, 1, 2})
		add("fix", one(s), []any{"removeprefix", "removesuffix"}, append(append([]any{}, nd...), s, s+"a", "a"+s))
		add("elems", one(s), []any{"elems", "codepoints", "elem_ords", "codepoint_ords"})
		// list methods
		L := asType("list", s)
		ints := idxAxis(n, false)[1:] // without None
		add("list", one(L), one("insert"), ints, one("X"))
		add("list", one(L), one("pop"), append([]any{vAbsent()}, ints...))
		add("list", one(L), one("index"), []any{"a", "B", " ", "X"}, ix, ix)
		add("list", one(L), one("remove"), []any{"a", "B", " ", "X"})
		add("list", one(L), one("append"), []any{"X", nil})
		add("list", one(L), one("extend"), []any{vList(), vList("X"), vTuple("X", "Y"), vRange(0, 2, 1), L, "ab", 7})
		// repetition, both operand orders
		counts := []any{-1, 0, 1, 2, 3, pow2(70, true)}
		if n == 0 {
			// an empty sequence repeated any number of times is empty, however large the count
			counts = append(counts, pow2(31, false), pow2(40, false), pow2(70, false))
		}
		if n <= 3 || extra {
			for _, t := range seqTypes {
				x := asType(t, s)
				add("repeat", one(x), counts)
				add("repeat", counts, one(x))
			}
		}
	}
	return fs
}

func rangeFamilies(level string) []*family {
	var fs []*family
	for a := -4; a <= 4; a++ {
		for b := -4; b <= 4; b++ {
			for c := -4; c <= 4; c++ {
				if c == 0 {
					continue
				}
				n := rangeLen(a, b, c)
				ix := idxAxis(n, true)
				fs = append(fs, &family{level: level, op: "slice", axes: [][]any{one(vRange(a, b, c)), ix, ix, strideAxis(n)}})
				fs = append(fs, &family{level: level, op: "index", axes: [][]any{one(vRange(a, b, c)), idxAxis(n, false)}})
			}
		}
	}
	return fs
}

func rangeLen(start, stop, step int) int {
	n := 0
	if step > 0 {
		for i := start; i < stop; i += step {
			n++
		}
	} else {
		for i := start; i > stop; i += step {
			n++
		}
	}
	return n
}

// sequencesOver returns all sequences of length <= n over pool.
func sequencesOver(pool []any, n int) [][]any {
	out := [][]any{{}}
	prev := [][]any{{}}
	for k := 1; k <= n; k++ {
		var cur [][]any
		for _, p := range prev {
			for _, e := range pool {
				cur = append(cur, append(append([]any{}, p...), e))
			}
		}
		out = append(out, cur...)
		prev = cur
	}
	return out
}

func concatTokens(tokens []string, n int) []any {
	seen := map[string]bool{}
	var out []any
	for _, seq := range sequencesOver(anyStrings(tokens), n) {
		var sb strings.Builder
		for _, t := range seq {
			sb.WriteString(t.(string))
		}
		if !seen[sb.String()] {
			seen[sb.String()] = true
			out = append(out, sb.String())
		}
	}
	return out
}

// chunk splits a long axis so that requests stay a few thousand cases each.
func chunk(ax []any, size int) [][]any {
	var out [][]any
	for len(ax) > size {
		out = append(out, ax[:size])
		ax = ax[size:]
	}
	if len(ax) > 0 {
		out = append(out, ax)
	}
	return out
}

func fixedFamilies(level string, thorough bool) []*family {
	var fs []*family
	add := func(op string, axes ...[]any) {
		fs = append(fs, &family{level: level, op: op, axes: axes})
	}
	noKw := vDict()

	// case mapping and predicates: alphabet with a digit and punctuation
	caseLen := 4
	if thorough {
		caseLen = 6
	}
	caseMethods := []any{"upper", "lower", "title", "capitalize", "isalnum", "isalpha", "isdigit", "islower", "isspace", "istitle", "isupper"}
	for _, c := range chunk(anyStrings(stringsUpTo("aB 1-", caseLen)), 200) {
		add("case", c, caseMethods)
	}
	// white space handling: alphabet with newline and carriage return
	wsLen := 4
	if thorough {
		wsLen = 6
	}
	ws := anyStrings(stringsUpTo("a\n\r", wsLen))
	ws = append(ws, anyStrings(stringsUpTo("b \t", wsLen))...)
	ws = append(ws, anyStrings(stringsUpTo("c\v\f", wsLen))...) // the two other ASCII white-space characters
	for _, c := range chunk(ws, 100) {
		add("splitlines", c, []any{vAbsent(), false, true})
		add("case", c, caseMethods)
		add("split", c, []any{"split", "rsplit"}, []any{vAbsent(), nil, "\n", "a"}, []any{vAbsent(), -1, 0, 1, 2, 3})
		add("strip", c, []any{"strip", "lstrip", "rstrip"}, []any{vAbsent(), "", "\n", " a", "\r\n"})
	}
	// join over lists of <= 3 pieces
	var its []any
	for _, seq := range sequencesOver([]any{"", "a", "B "}, 3) {
		its = append(its, vList(seq...), vTuple(seq...))
	}
	its = append(its, vList(1), vList("a", nil), vTuple("a", vBytes("b")), "ab", 7, nil, vRange(0, 2, 1), vDict("k", 1, "j", 2))
	add("join", anyStrings(needles()), its)

	// format: grammar of <= 3 tokens
	ftoks := []string{"x", "{{", "}}", "{}", "{0}", "{1}", "{k}", "{!r}", "{0!s}", "{k!r}", "{", "}", "{:}", "{0:>3}", "{!x}"}
	fargs := []any{vTuple(), vTuple("s"), vTuple(1, "s"), vTuple(nil, true, vList(1, "s")), vTuple(vTuple("s"), vTuple())}
	fkw := []any{noKw, vDict("k", "v"), vDict("k", vList("s", 2))}
	for _, c := range chunk(concatTokens(ftoks, 3), 400) {
		add("format", c, fargs, fkw)
	}
	// % interpolation: grammar of <= 3 tokens
	ptoks := []string{"x", "%%", "%s", "%r", "%d", "%i", "%o", "%x", "%X", "%c", "%(k)s", "%(k)d", "%(j)r", "%", "%z"}
	operands := []any{7, "s", -255, true, nil, vTuple(), vTuple(7), vTuple("s"), vTuple("s", 7), vTuple(7, "s"), vTuple(65, 7, "s"), vTuple(7, 8, 9),
		vTuple(vTuple("s", 7)), vList(7), vDict(), vDict("k", 7), vDict("k", "s", "j", vList("s"))}
	for _, c := range chunk(concatTokens(ptoks, 3), 400) {
		add("percent", c, operands)
	}

	// sequence built-ins on sequences of <= 3 elements
	tup := func(xs ...any) any { return vTuple(xs...) }
	var truthSeqs []any
	for _, seq := range sequencesOver([]any{0, 1, "", "a", nil, vList(), vList(0)}, 3) {
		truthSeqs = append(truthSeqs, tup(vList(seq...)), tup(vTuple(seq...)))
	}
	truthSeqs = append(truthSeqs, tup(vElems("")), tup(vElems("a")), tup(vElems("aBa")), tup(vCodepoints("")), tup(vCodepoints("aBa")), tup(vRange(0, 0, 1)), tup(vRange(0, 2, 1)), tup(vRange(1, 3, 1)), tup("ab"), tup(7), tup(vDict("", 1)), tup(vDict()))
	add("seq", []any{"any", "all", "reversed"}, truthSeqs, one(noKw))

	var ordSeqs []any
	for _, seq := range sequencesOver([]any{0, 1, 2, "a", "B"}, 3) {
		ordSeqs = append(ordSeqs, tup(vList(seq...)), tup(vTuple(seq...)))
	}
	ordSeqs = append(ordSeqs, tup(vElems("Ba")), tup(vElems("aaB")), tup(vCodepoints("Ba")), tup(vRange(2, -1, -1)), tup(vRange(0, 3, 2)), tup("ba"), tup(7), tup(vDict("b", 1, "a", 2)))
	sortKw := []any{noKw, vDict("reverse", true), vDict("reverse", false), vDict("key", vFn("neg")), vDict("key", vFn("neg"), "reverse", true), vDict("key", vFn("len"))}
	add("seq", one("sorted"), ordSeqs, sortKw)
	mmKw := []any{noKw, vDict("key", vFn("neg")), vDict("key", vFn("len"))}
	add("seq", []any{"min", "max"}, ordSeqs, mmKw)
	// min/max with several positional arguments
	var multi []any
	for _, seq := range sequencesOver([]any{0, 1, 2, "a", "B"}, 3) {
		if len(seq) != 1 {
			multi = append(multi, vTuple(seq...))
		}
	}
	add("seq", []any{"min", "max"}, multi, mmKw)
	// stability and tie-breaking: pairs ordered by their first component only
	pairPool := []any{vTuple(0, "x"), vTuple(0, "y"), vTuple(1, "x"), vTuple(1, "w")}
	var pairSeqs, pairMulti []any
	for _, seq := range sequencesOver(pairPool, 3) {
		pairSeqs = append(pairSeqs, tup(vList(seq...)), tup(vTuple(seq...)))
		if len(seq) >= 2 {
			pairMulti = append(pairMulti, vTuple(seq...))
		}
	}
	byFirst := []any{noKw, vDict("key", vFn("first")), vDict("key", vFn("first"), "reverse", true), vDict("key", vFn("first"), "reverse", false)}
	add("seq", one("sorted"), pairSeqs, byFirst)
	add("seq", []any{"min", "max"}, pairSeqs, byFirst[:2])
	add("seq", []any{"min", "max"}, pairMulti, byFirst[:2])
	// zip of 0..3 sequences, enumerate
	zipPool := []any{vList(), vList(0), vList(0, 1), vTuple(0, 1, 2), vRange(5, 7, 1), vList("a", "b", "c"), vElems(""), vElems("a"), vElems("aB"), vCodepoints(""), vCodepoints("a"), vCodepoints("aB")}
	var zips []any
	for _, seq := range sequencesOver(zipPool, 3) {
		zips = append(zips, vTuple(seq...))
	}
	zips = append(zips, vTuple(vList(0), "ab"), vTuple(7), vTuple(vList(0), nil))
	add("seq", one("zip"), zips, one(noKw))
	var enums []any
	for _, s := range append(append([]any{}, zipPool...), "ab", 7) {
		for _, st := range []any{vAbsent(), 0, 1, -1, 5} {
			enums = append(enums, vTuple(s, st))
		}
	}
	add("seq", one("enumerate"), enums, one(noKw))

	// concatenation: all receivers of length <= 2 in every pair of types
	var operands2 []any
	for _, t := range seqTypes {
		for _, s := range stringsUpTo(alpha, 2) {
			operands2 = append(operands2, asType(t, s))
		}
	}
	operands2 = append(operands2, vRange(0, 2, 1), nil)
	add("concat", operands2, operands2)
	// chains of slices and concatenations whose results are all looked at afterwards
	var operands3 []any
	for _, t := range []string{"string", "list", "tuple"} {
		for _, s := range stringsUpTo(alpha, 3) {
			operands3 = append(operands3, asType(t, s))
		}
	}
	add("persist", operands3, operands3)
	return fs
}

// randomFamilies: seeded random receivers up to length 40 (sampled_extra).
func randomFamilies(level string, seed int64, count int) []*family {
	rng := rand.New(rand.NewSource(seed*7919 + 13))
	var recvs []string
	for i := 0; i < count; i++ {
		n := 9 + rng.Intn(32)
		b := make([]byte, n)
		for j := range b {
			b[j] = "aB cD"[rng.Intn(5)]
		}
		recvs = append(recvs, string(b))
	}
	var fs []*family
	for _, s := range recvs {
		n := len(s)
		var ix []any
		ix = append(ix, vAbsent(), nil)
		for k := 0; k < 8; k++ {
			ix = append(ix, rng.Intn(2*n+7)-n-3)
		}
		ix = append(ix, pow2(40, false), pow2(70, true))
		for _, t := range seqTypes {
			fs = append(fs, &family{level: level, op: "slice", axes: [][]any{one(asType(t, s)), ix, ix, strideAxis(n)}, extra: true})
		}
		nd := []any{"", "a", "B ", " c", s[n/2 : n/2+2], s[:3]}
		fs = append(fs, &family{level: level, op: "find", axes: [][]any{one(s), []any{"find", "rfind", "index", "rindex", "count"}, nd, ix, ix}, extra: true})
		fs = append(fs, &family{level: level, op: "swith", axes: [][]any{one(s), []any{"startswith", "endswith"}, append(nd, vTuple("a", s[:2])), ix, ix}, extra: true})
		fs = append(fs, &family{level: level, op: "split", axes: [][]any{one(s), []any{"split", "rsplit"}, []any{vAbsent(), nil, " ", "a", "B "}, []any{vAbsent(), -1, 0, 1, 2, 5, n}}, extra: true})
		fs = append(fs, &family{level: level, op: "replace", axes: [][]any{one(s), nd, []any{"", "xy"}, []any{vAbsent(), -1, 0, 1, 3}}, extra: true})
	}
	return fs
}

// profiling aid (stderr only, never part of a verdict): C13_PROF=1
var profOracle, profImpl time.Duration

type levelDef struct {
	name string
	fams []*family
}

func levels(tier string, seed int64) []levelDef {
	thorough := tier == "thorough"
	var ls []levelDef
	addRecv := func(n int) {
		name := fmt.Sprintf("receivers-len%d(all %d over {a,B,space} x string/bytes/list/tuple)", n, pow3(n))
		ls = append(ls, levelDef{name, receiverFamilies(name, stringsOver(alpha, n), thorough, false)})
	}
	addRecv(0)
	addRecv(1)
	addRecv(2)
	fx := "fixed-families(case,splitlines,whitespace,join,format,%,seq-builtins,concat)"
	ls = append(ls, levelDef{fx, fixedFamilies(fx, thorough)})
	addRecv(3)
	rg := "ranges(648 over [-4,4]^3; slice+index)"
	ls = append(ls, levelDef{rg, rangeFamilies(rg)})
	addRecv(4)
	lg := "receivers-len6..8(one distinct-letter receiver each)"
	ls = append(ls, levelDef{lg, receiverFamilies(lg, longRecv, thorough, false)})
	addRecv(5)
	if thorough {
		addRecv(6)
		rn := "random-receivers-len9..40(seeded; sampled_extra)"
		ls = append(ls, levelDef{rn, randomFamilies(rn, seed, 48)})
	}
	return ls
}

func pow3(n int) int {
	r := 1
	for i := 0; i < n; i++ {
		r *= 3
	}
	return r
}

// ---------------------------------------------------------------------------
// comparison and violation keys

type violCase struct {
	Op       string `json:"op"`
	Point    []any  `json:"point"`
	Expected string `json:"expected"`
	Got      string `json:"got"`
	Source   string `json:"source,omitempty"`
}

func taggedText(x any) string {
	switch x := x.(type) {
	case nil:
		return "None"
	case bool:
		if x {
			return "True"
		}
		return "False"
	case string:
		var sb strings.Builder
		q(&sb, x)
		return sb.String()
	case map[string]any:
		if isAbsent(x) {
			return "<omitted>"
		}
		if v, ok := x["b"]; ok {
			return "b" + taggedText(v)
		}
		join := func(v any) string {
			var parts []string
			for _, e := range v.([]any) {
				parts = append(parts, taggedText(e))
			}
			return strings.Join(parts, ", ")
		}
		if v, ok := x["l"]; ok {
			return "[" + join(v) + "]"
		}
		if v, ok := x["t"]; ok {
			if len(v.([]any)) == 1 {
				return "(" + join(v) + ",)"
			}
			return "(" + join(v) + ")"
		}
		if v, ok := x["r"]; ok {
			return "range(" + join(v) + ")"
		}
		if v, ok := x["e"]; ok {
			return taggedText(v) + ".elems()"
		}
		if v, ok := x["d"]; ok {
			var parts []string
			for _, p := range v.([]any) {
				kv := p.([]any)
				parts = append(parts, taggedText(kv[0])+": "+taggedText(kv[1]))
			}
			return "{" + strings.Join(parts, ", ") + "}"
		}
		if v, ok := x["f"]; ok {
			return fmt.Sprint(v)
		}
	}
	if z := bigOf(x); z != nil {
		if !z.IsInt64() || z.Int64() > 1<<30 || z.Int64() < -(1<<30) {
			// show powers of two readably
			a := new(big.Int).Abs(z)
			if a.BitLen() > 0 && a.TrailingZeroBits() == uint(a.BitLen()-1) {
				s := fmt.Sprintf("(1<<%d)", a.BitLen()-1)
				if z.Sign() < 0 {
					s = "-" + s
				}
				return s
			}
		}
		return z.String()
	}
	return fmt.Sprint(x)
}

// sourceText renders a case as Starlark source for humans.
func sourceText(op string, pt []any) string {
	t := taggedText
	args := func(xs []any) string {
		var parts []string
		for _, a := range given(xs) {
			parts = append(parts, t(a))
		}
		return strings.Join(parts, ", ")
	}
	switch op {
	case "slice":
		part := func(x any) string {
			if isAbsent(x) {
				return ""
			}
			return t(x)
		}
		s := t(pt[0]) + "[" + part(pt[1]) + ":" + part(pt[2])
		if !isAbsent(pt[3]) {
			s += ":" + part(pt[3])
		}
		return s + "]"
	case "index":
		return t(pt[0]) + "[" + t(pt[1]) + "]"
	case "find", "swith", "split", "partition", "strip", "fix", "case", "list":
		return t(pt[0]) + "." + pt[1].(string) + "(" + args(pt[2:]) + ")"
	case "splitlines", "replace", "join":
		return t(pt[0]) + "." + op + "(" + args(pt[1:]) + ")"
	case "elems":
		return "list(" + t(pt[0]) + "." + pt[1].(string) + "())"
	case "format", "seq":
		a := args(pt[1].(map[string]any)["t"].([]any))
		if kw, ok := pt[2].(map[string]any)["d"].([]any); ok {
			for _, p := range kw {
				kv := p.([]any)
				if a != "" {
					a += ", "
				}
				a += fmt.Sprint(kv[0]) + "=" + t(kv[1])
			}
		}
		if op == "format" {
			return t(pt[0]) + ".format(" + a + ")"
		}
		return pt[0].(string) + "(" + a + ")"
	case "percent":
		return t(pt[0]) + " % " + t(pt[1])
	case "concat":
		return t(pt[0]) + " + " + t(pt[1])
	case "persist":
		return "persist(" + t(pt[0]) + ", " + t(pt[1]) + ")  # a = x[:2]; b = a + u; c = a + u[:1]; d = x[1:]; e = d + u; f = x + u; g = f[:len(x)] + u; h = x * 1; i = h + u; j = (x + u)[::2]; k = j + u; m = j + x; n = x[:0] + u; o = n + x; [x, u, a, ..., o]"
	case "repeat":
		return t(pt[0]) + " * " + t(pt[1])
	}
	return op
}

// opLabel names the operation (with its method) and the receiver type.
func opLabel(op string, pt []any) string {
	switch op {
	case "slice", "index":
		return op + "/" + typeOfTagged(pt[0])
	case "find", "swith", "split", "partition", "strip", "fix", "case", "elems":
		return "string." + pt[1].(string)
	case "splitlines", "replace", "join":
		return "string." + op
	case "format":
		return "string.format"
	case "percent":
		return "string%"
	case "list":
		return "list." + pt[1].(string)
	case "seq":
		return pt[0].(string)
	case "concat":
		return "+/" + typeOfTagged(pt[0]) + "," + typeOfTagged(pt[1])
	case "persist":
		return "slice-and-concatenate chains/" + typeOfTagged(pt[0]) + "," + typeOfTagged(pt[1])
	case "repeat":
		a, b := typeOfTagged(pt[0]), typeOfTagged(pt[1])
		return "*/" + a + "," + b
	}
	return op
}

// classify names the way implementation and reference disagree.
func classify(op string, pt []any, expected, got string) string {
	if op == "strip" && len(pt) > 2 {
		if cs, ok := pt[2].(string); ok && cs == "" && got != "!" && got != "PANIC" && expected != "!" {
			return "empty-cutset"
		}
	}
	switch {
	case got == "PANIC":
		return "panic"
	case got == "!" && expected != "!":
		// an integer operand beyond int32 that the spec clamps
		if op == "slice" {
			if beyondInt32(pt[1]) || beyondInt32(pt[2]) {
				return "bigindex-error"
			}
			if beyondInt32(pt[3]) {
				return "bigstride-error"
			}
		}
		for _, a := range pt[1:] {
			if beyondInt32(a) {
				if op == "repeat" {
					return "bigcount-error"
				}
				return "bigindex-error"
			}
		}
		if op == "repeat" && beyondInt32(pt[0]) {
			return "bigcount-error"
		}
		return "error-where-value-specified"
	case expected == "!":
		return "value-where-failure-specified"
	}
	return "wrong-value"
}

func trivial(expected string, recvCanon string) bool {
	switch expected {
	case "!", `""`, `b""`, "[]", "()", "R[]", "-1", "0", "F", "N", recvCanon:
		return true
	}
	return false
}

// checkFamily runs every case of one family on both sides.
func checkFamily(h *helpers, o *oracle, f *family, st *fw.Stats, viols map[string]fw.Viol) {
	t0 := time.Now()
	exp := o.ask(f.op, f.axes)
	profOracle += time.Since(t0)
	defer func(t time.Time) { profImpl += time.Since(t) }(time.Now())
	nAx := len(f.axes)
	ctr := make([]int, nAx)
	pt := make([]any, nAx)
	var recvCanon string
	if s, ok := f.axes[0][0].(string); ok && len(f.axes[0]) == 1 {
		var sb strings.Builder
		q(&sb, s)
		recvCanon = sb.String()
	}
	sampled := false
	outc := map[string]*outcomeAgg{}
	disagreements := map[string]int64{}
	var nontrivial int64
	for k := 0; k < len(exp); k++ {
		for i := 0; i < nAx; i++ {
			pt[i] = f.axes[i][ctr[i]]
		}
		// advance the odometer (last axis fastest)
		for i := nAx - 1; i >= 0; i-- {
			ctr[i]++
			if ctr[i] < len(f.axes[i]) {
				break
			}
			ctr[i] = 0
		}
		e := exp[k]
		if e == "~" {
			st.Count("shapes_not_generated", 1)
			continue
		}
		got, errText := h.execOp(f.op, pt)
		ok := got == e || (e == "?" && got != "!" && got != "PANIC") || e == "*"
		if !ok && strings.HasPrefix(e, "?alt ") {
			for _, alt := range strings.Split(e[5:], " ||| ") {
				if got == alt {
					ok = true
				}
			}
		}
		// outcome classes are aggregated per (family, method) and flushed below
		mkey := labelKey(f.op, pt)
		oc := outc[mkey]
		if oc == nil {
			oc = &outcomeAgg{pt: append([]any{}, pt...)}
			outc[mkey] = oc
		}
		switch {
		case e == "!":
			oc.fails++
		case e == "*" || e[0] == '?':
			oc.unjudged++
		default:
			oc.values++
		}
		if !trivial(e, recvCanon) {
			nontrivial++
			if !sampled && ok && !f.extra && k%97 == 5 && e[0] != '?' && e != "*" && (recvCanon == "" || len(recvCanon) >= 5) {
				sampled = true
				if len(st.Samples) < 6 {
					st.Sample(map[string]any{"case": sourceText(f.op, pt), "reference": e, "implementation": got})
				}
			}
		}
		if ok {
			continue
		}
		kind := classify(f.op, pt, e, got)
		key := kind + "/" + coarseLabel(kind, f.op, pt)
		disagreements[key]++
		if _, seen := viols[key]; seen {
			continue // the first (simplest-first order) case of a key is kept per shard
		}
		what := fmt.Sprintf("%s: specification/reference gives %s, implementation gives %s", sourceText(f.op, pt), showRes(e), showRes(got))
		if errText != "" {
			what += " (" + trunc(errText, 160) + ")"
		}
		raw, _ := json.Marshal(violCase{Op: f.op, Point: append([]any{}, pt...), Expected: e, Got: got, Source: sourceText(f.op, pt)})
		viols[key] = fw.Viol{Key: key, What: what, Case: raw}
	}
	var executed int64
	for _, oc := range outc {
		label := opLabel(f.op, oc.pt)
		if oc.fails > 0 {
			st.Outcomes[label+":fails"] += oc.fails
		}
		if oc.values > 0 {
			st.Outcomes[label+":value"] += oc.values
		}
		if oc.unjudged > 0 {
			st.Outcomes[label+":unjudged"] += oc.unjudged
			st.Count("unjudged:"+label, oc.unjudged)
		}
		executed += oc.fails + oc.values + oc.unjudged
	}
	if f.extra {
		st.Count("sampled_extra", executed)
	} else {
		st.Evals += executed
		st.Nontrivial += nontrivial
	}
	for k, n := range disagreements {
		st.Count("disagreements:"+k, n)
	}
}

// coarseLabel keeps one key per root cause for the failure classes that are
// defined by an argument class rather than by the operation.
func coarseLabel(kind, op string, pt []any) string {
	switch kind {
	case "bigindex-error":
		switch {
		case op == "slice":
			return "slice"
		case op == "list" && pt[1].(string) == "insert":
			return "list.insert"
		}
		return "subrange-methods"
	case "bigstride-error":
		return "slice"
	case "bigcount-error":
		return "repeat"
	case "empty-cutset":
		return "strip-family"
	}
	return opLabel(op, pt)
}

// labelKey is a cheap key of the coordinates opLabel depends on.
func labelKey(op string, pt []any) string {
	switch op {
	case "find", "swith", "split", "partition", "strip", "fix", "case", "elems", "list":
		return pt[1].(string)
	case "seq":
		return pt[0].(string)
	case "concat", "repeat", "persist":
		return typeOfTagged(pt[0]) + "," + typeOfTagged(pt[1])
	}
	return ""
}

type outcomeAgg struct {
	pt                      []any
	fails, values, unjudged int64
}

func showRes(r string) string {
	switch r {
	case "!":
		return "failure"
	case "?":
		return "success (value not judged)"
	}
	return r
}

// ---------------------------------------------------------------------------
// worker / coordinator / replay

func worker(c *fw.Ctx) *fw.Stats {
	// one interpreter thread per worker process; more only adds GC scheduling overhead
	runtime.GOMAXPROCS(2)
	st := fw.NewStats()
	h := newHelpers()
	o := startOracle()
	defer o.close()
	var idx int64
	viols := map[string]fw.Viol{}
	defer func() { st.Viols = append(st.Viols, sortedViols(viols)...) }()
	for _, lv := range levels(c.Tier, c.Seed) {
		cut := false
		var cases int64
		for _, f := range lv.fams {
			mine := c.Mine(idx)
			idx++
			if !mine {
				continue
			}
			if c.Expired() {
				cut = true
				break
			}
			if !c.Risky(f.ident()) {
				continue
			}
			checkFamily(h, o, f, st, viols)
			cases += f.size()
		}
		if cut {
			st.Count("levelcut:"+lv.name, 1)
			// do not start deeper levels once one is cut
			break
		}
		st.Count("leveldone:"+lv.name, 1)
		st.Count("cases:"+lv.name, cases)
		if os.Getenv("C13_PROF") != "" {
			fmt.Fprintf(os.Stderr, "shard %d after %s: oracle %.1fs impl+compare %.1fs\n", c.Shard, lv.name[:14], profOracle.Seconds(), profImpl.Seconds())
		}
	}
	return st
}

func sortedViols(m map[string]fw.Viol) []fw.Viol {
	var keys []string
	for k := range m {
		keys = append(keys, k)
	}
	sort.Strings(keys)
	var out []fw.Viol
	for _, k := range keys {
		out = append(out, m[k])
	}
	return out
}

func dedupe(vs []fw.Viol) []fw.Viol {
	best := map[string]int{}
	var out []fw.Viol
	for _, v := range vs {
		if i, ok := best[v.Key]; ok {
			if simpler(v, out[i]) {
				out[i] = v
			}
			continue
		}
		best[v.Key] = len(out)
		out = append(out, v)
	}
	return out
}

// simpler orders violations of one key: shortest case first, then lexicographic.
func simpler(a, b fw.Viol) bool {
	if len(a.Case) != len(b.Case) {
		return len(a.Case) < len(b.Case)
	}
	return bytes.Compare(a.Case, b.Case) < 0
}

func run(c *fw.Ctx) *fw.Stats {
	onCrash := func(ci fw.CrashInfo, s *fw.Stats) {
		s.Violate("process-death/"+ci.Key, "process death while executing request "+ci.Key+": "+trunc(ci.Stderr, 400), map[string]any{"ident": ci.Key})
	}
	st := c.Sharded(0, onCrash)
	st.Viols = dedupe(st.Viols)
	sort.Slice(st.Viols, func(i, j int) bool { return st.Viols[i].Key < st.Viols[j].Key })
	// a level is complete when every shard completed its part of it
	n := int64(0)
	for k, v := range st.Counters {
		if strings.HasPrefix(k, "leveldone:") && v > n {
			n = v
		}
	}
	for _, lv := range levels(c.Tier, c.Seed) {
		done := st.Counters["leveldone:"+lv.name]
		cases := st.Counters["cases:"+lv.name]
		delete(st.Counters, "leveldone:"+lv.name)
		delete(st.Counters, "cases:"+lv.name)
		cutBy := st.Counters["levelcut:"+lv.name]
		delete(st.Counters, "levelcut:"+lv.name)
		if done == n && n > 0 && cutBy == 0 {
			st.Levels = append(st.Levels, fmt.Sprintf("%s:%d cases", lv.name, cases))
		} else {
			st.Cut = append(st.Cut, fmt.Sprintf("%s (complete in %d of %d shards)", lv.name, done, n))
		}
	}
	if n := st.Counters["unjudged:string.rsplit"]; n > 0 {
		st.Notes = append(st.Notes, fmt.Sprintf("%d rsplit cases with overlapping separator occurrences (e.g. \"aaa\".rsplit(\"aa\", 1)) accept either [\"a\", \"\"] (Python 3, scanning from the right) or [\"\", \"a\"] (the rightmost of split()'s points; what starlark-go returns): doc/spec.md's wording admits both, so the divergence from Python is reported here and not judged", n))
	}
	if n := st.Counters["unjudged:+/bytes,bytes"]; n > 0 {
		st.Notes = append(st.Notes, fmt.Sprintf("%d bytes+bytes cases are not judged: doc/spec.md defines + for string, list and tuple only (observed: bytes+bytes of non-constant operands fails with 'unknown binary op' although the compiler folds b\"a\"+b\"b\")", n))
	}
	if st.Counters["sampled_extra"] > 0 {
		st.Notes = append(st.Notes, "sampled_extra cases (seeded random receivers of length 9..40) are compared like the others but are not counted in evaluations/nontrivial and do not contribute to 'exhaustive'")
	}
	return st
}

func replay(c *fw.Ctx, raw json.RawMessage) []fw.Viol {
	var vc violCase
	dec := json.NewDecoder(bytes.NewReader(raw))
	dec.UseNumber()
	if err := dec.Decode(&vc); err != nil {
		fw.Fatal("c13 replay: bad case: %v", err)
	}
	if vc.Op == "" {
		// process-death case: re-run the whole request
		var pd struct {
			Ident string `json:"ident"`
		}
		json.Unmarshal(raw, &pd)
		h := newHelpers()
		o := startOracle()
		defer o.close()
		st := fw.NewStats()
		for _, tier := range []string{"quick", "thorough"} {
			for _, lv := range levels(tier, c.Seed) {
				for _, f := range lv.fams {
					if f.ident() == pd.Ident {
						viols := map[string]fw.Viol{}
						checkFamily(h, o, f, st, viols)
						return sortedViols(viols)
					}
				}
			}
		}
		return nil
	}
	axes := make([][]any, len(vc.Point))
	for i, p := range vc.Point {
		axes[i] = []any{p}
	}
	h := newHelpers()
	o := startOracle()
	defer o.close()
	st := fw.NewStats()
	viols := map[string]fw.Viol{}
	checkFamily(h, o, &family{level: "replay", op: vc.Op, axes: axes}, st, viols)
	return sortedViols(viols)
}

func init() {
	fw.Register(&fw.Prop{
		ID:    "C13",
		Level: "exploration",
		Rule: "exhaustive grids: every receiver of length 0..5 over {a,B,space} (+1 distinct-letter receiver per length 6..8) as string/bytes/list/tuple and all 648 ranges over [-4,4]^3; " +
			"slice: every (start,stop,stride) with start,stop in {omitted,None,[-n-3,n+3],+-2^31,+-2^40,+-2^70}, stride in {omitted,None,+-1,+-2,+-3,+-(n+1),0,+-2^31,+-2^70}; index: every i likewise; " +
			"find/rfind/index/rindex/count/startswith/endswith: every needle of length<=2 (tuples of them for *with) x every (start,end) pair of the same grid (quick tier: needles of length<=1 on the 243 receivers of length 5, full set on all other lengths; thorough: full set everywhere, tuples over all 13 needles for n<=4, all 729 receivers of length 6, seeded random receivers of length 9..40 as sampled_extra); split/rsplit/partition/strip/replace/removeprefix/suffix/elems: all separators/cutsets of length<=2, all listed counts; " +
			"list insert/pop/index/remove/append/extend with every index of the grid; repetition counts -1..3 and -2^70; fixed families: case mapping+predicates over {a,B,space,1,-}, splitlines and whitespace split/strip over {a,\\n,\\r} and {b,space,\\t}, join over lists of <=3 pieces, " +
			"format and % over every concatenation of <=3 grammar tokens x operand sets, reversed/zip/enumerate/sorted/any/all/min/max over sequences of <=3 elements (incl. key=, reverse=, stability pairs), + over all pairs of receivers of length<=2 and types. " +
			"Each case runs in the real interpreter via compiled helper functions and is compared (canonical structural value, or failure-vs-success) with the spec-derived Python reference; " +
			"non-trivial = a case whose reference result is not the operation's default (failure, empty, -1, 0, False, None, or the unchanged receiver)",
		Run: run, Worker: worker, Replay: replay,
		Assumptions: []string{
			"ASCII receivers only, so that byte and code-point semantics coincide",
			"doc/spec.md does not define a bytes type: bytes slicing/+/* are judged like strings, bytes[i] only for failure-vs-success",
			"argument shapes the spec leaves open are not generated: maxsplit=None, strip(None), non-Boolean keepends, %e/%f/%g, float operands, mixed keyed/positional % conversions, bool as index/count, range*int",
			"rsplit(None, maxsplit) is exercised with maxsplit<=2^16 (it preallocates maxsplit+1 slots; the 2^62 crash is C02's finding); all other split forms use 2^31",
			"rpartition of an absent separator is judged by Python's value (\"\", \"\", S); the spec only says 'like partition'",
		},
		BudgetQuick: 75, BudgetThorough: 900,
	})
}
