#!/usr/bin/env python3
"""C13 oracle: a reference for Starlark's sequence and string operations derived
from /repo/doc/spec.md, composed from Python 3's primitive of the same name.

Protocol (one process per worker, many requests):
  stdin : one JSON object per line  {"id":n, "op":name, "axes":[[...],[...],...]}
  stdout: one JSON object per line  {"id":n, "r":[canon, ...]}
The cases of a request are the cartesian product of its axes in row-major order
(last axis fastest).  Each result is a canonical string (see canon()), or
  "!"  the specification says the operation fails
  "~"  the argument shape is not generated (an omitted argument before a given one)
  "?"  the operation succeeds but its value is not judged
  "*"  nothing is judged (the spec does not define the operation)
  "?alt A ||| B"  the spec's wording admits both A and B

Tagged argument encoding: null None; true/false; number int; "..." string;
{"absent":1} omitted argument; {"b":"latin-1 text"} bytes; {"l":[..]} list;
{"t":[..]} tuple; {"r":[start,stop,step]} range; {"d":[[k,v],..]} dict;
{"f":name} key function.

DOCUMENTED DEVIATIONS FROM PYTHON 3 (spec.md section in brackets).  Every one is
encoded below; where Python's own primitive is used as a cross-check, a
difference is accepted only in exactly these classes (anything else raises
OracleBug and is a harness error, never a violation):
  D1 [Indexing; string.find/count/startswith]  start/end of a sub-range are
     clamped to [0,n] first and the method then works on S[start:end]; an empty
     needle is therefore found in an empty sub-range ("abc".find("",5) == 3,
     "abc".count("",2,1) == 1, "abc".startswith("",2,1)), where Python says
     -1 / 0 / False.
  D2 [Strings; Sequence types]  strings are not iterable: join/extend/reversed/
     sorted/min/max/zip/enumerate/any/all of a str fail.
  D3 [string.format]  a non-empty format specifier fails; str()/repr() of the
     arguments are Starlark's (strings inside containers and under !r are
     double-quoted).
  D4 [String interpolation]  no flags/width/precision; a Boolean is not a number
     for %d %i %o %x %X; %r of a string is double-quoted.
  D5 [string.splitlines]  only "\n" terminates a line.
  D6 [Slice expressions; list.index]  None is the same as an omitted index
     (Python's list.index rejects None).
  D7 [Indexing; list.insert]  indices may be arbitrarily large integers and are
     clamped (CPython raises OverflowError beyond ssize_t in some primitives).
  D8 [bytes]  doc/spec.md does not define the element type of bytes[i]; only
     success/failure of bytes indexing is judged.
NOT GENERATED because the spec is silent or ambiguous: maxsplit=None,
strip(None), non-Boolean keepends, %e %f %g, float operands of % and format,
mixed "%(k)s"/positional conversions, a dict operand of a positional %s,
bool used as an index or count, range*int.
"""
import sys, json, itertools, traceback


class Err(Exception):
    """The specification says the operation fails."""


class OracleBug(Exception):
    pass


class _Absent:
    def __repr__(self):
        return "ABSENT"


ABSENT = _Absent()
SKIP = object()
UNJUDGED = object()   # must succeed, value not judged
DONTCARE = object()   # not judged at all (the spec does not define the operation)


class Alt:
    """Either of two values satisfies the specification's wording."""

    def __init__(self, a, b):
        self.a, self.b = a, b

PYFAIL = (ValueError, TypeError, IndexError, KeyError, OverflowError)


def prim(f, *a, **k):
    """Apply a Python primitive; its failure is the operation's failure."""
    try:
        return f(*a, **k)
    except PYFAIL as e:
        raise Err(str(e))


def k_neg(x):
    if isinstance(x, bool) or not isinstance(x, int):
        raise Err("unary - on non-number")
    return -x


def k_first(t):
    if not isinstance(t, (tuple, list)) or len(t) == 0:
        raise Err("no first element")
    return t[0]


def k_len(x):
    if isinstance(x, (str, bytes, list, tuple, range, dict)):
        return len(x)
    raise Err("len of non-sequence")


KEYFNS = {"neg": k_neg, "first": k_first, "len": k_len}


class Elems(list):
    """"s".elems(): an iterable (of one-character strings) that has no length"""
    def __init__(self, s):
        list.__init__(self, list(s))


def dec(x):
    if x is None or isinstance(x, (bool, int, str)):
        return x
    if isinstance(x, dict):
        if "absent" in x:
            return ABSENT
        if "b" in x:
            return x["b"].encode("latin-1")
        if "l" in x:
            return [dec(e) for e in x["l"]]
        if "t" in x:
            return tuple(dec(e) for e in x["t"])
        if "r" in x:
            return range(*x["r"])
        if "e" in x:
            return Elems(x["e"])
        if "cp" in x:
            return Elems(x["cp"])
        if "d" in x:
            return {dec(k): dec(v) for k, v in x["d"]}
        if "f" in x:
            return KEYFNS[x["f"]]
    raise OracleBug("cannot decode %r" % (x,))


def q(s):
    out = ['"']
    for ch in s:
        o = ord(ch)
        if 32 <= o < 127 and ch != '"' and ch != "\\":
            out.append(ch)
        else:
            out.append("\\x%02x" % o)
    out.append('"')
    return "".join(out)


def canon(v):
    if v is None:
        return "N"
    if v is True:
        return "T"
    if v is False:
        return "F"
    if isinstance(v, int):
        return str(v)
    if isinstance(v, str):
        return q(v)
    if isinstance(v, bytes):
        return "b" + q(v.decode("latin-1"))
    if isinstance(v, list):
        return "[" + ",".join(canon(e) for e in v) + "]"
    if isinstance(v, tuple):
        return "(" + ",".join(canon(e) for e in v) + ")"
    if isinstance(v, range):
        return "R[" + ",".join(str(e) for e in v) + "]"
    if isinstance(v, dict):
        return "{" + ",".join(canon(k) + ":" + canon(x) for k, x in v.items()) + "}"
    raise OracleBug("cannot canon %r" % (v,))


def is_int(x):
    return isinstance(x, int) and not isinstance(x, bool)


def is_iterable(x):
    # D2: strings (and bytes) are not iterable.
    return isinstance(x, (list, tuple, range, dict))  # Elems is a list


def none_if_absent(x):
    return None if x is ABSENT else x


# ---------------------------------------------------------------------------
# § Indexing and § Slice expressions, transcribed

INF = float("inf")


def eff_index(i, n, default):
    """Sub-sequence operand: omitted/None -> default; negative -> +n; then
    truncated to the nearest value in [0:n]."""
    if i is None or i is ABSENT:
        return default
    if not is_int(i):
        raise Err("index must be int or None")
    if i < 0:
        i += n
    if i < 0:
        i = 0
    if i > n:
        i = n
    return i


def slice_positions(n, start, stop, stride):
    """The sequence of valid i visited by a[start:stop:stride]."""
    start, stop, stride = none_if_absent(start), none_if_absent(stop), none_if_absent(stride)
    for v in (start, stop, stride):
        if v is not None and not is_int(v):
            raise Err("slice operand must be int or None")
    if stride is None:
        stride = 1
    if stride == 0:
        raise Err("zero stride")
    if stride > 0:
        lo, hi = 0, n
        s = -INF if start is None else start
        e = INF if stop is None else stop
    else:
        lo, hi = -1, n - 1
        s = INF if start is None else start
        e = -INF if stop is None else stop
    if s < 0 and s != -INF:
        s += n
    if e < 0 and e != -INF:
        e += n
    s = min(max(s, lo), hi)
    e = min(max(e, lo), hi)
    out = []
    i = s
    if stride > 0:
        while i < e:
            out.append(i)
            i += stride
    else:
        while i > e:
            out.append(i)
            i += stride
    return out


def rebuild(x, pos):
    if isinstance(x, str):
        return "".join(x[i] for i in pos)
    if isinstance(x, bytes):
        return bytes(x[i] for i in pos)
    if isinstance(x, list):
        return [x[i] for i in pos]
    if isinstance(x, tuple):
        return tuple(x[i] for i in pos)
    raise OracleBug("rebuild %r" % (x,))


def sub(x, i, j):
    """x[i:j] under § Indexing (positive stride) and the effective start."""
    n = len(x)
    a = eff_index(i, n, 0)
    b = eff_index(j, n, n)
    return rebuild(x, slice_positions(n, a, b, None)), a


def op_slice(x, a, b, c):
    n = len(x)
    pos = slice_positions(n, a, b, c)
    native = x[slice(none_if_absent(a), none_if_absent(b), none_if_absent(c))]
    if isinstance(x, range):
        elems = [x[i] for i in pos]
        if list(native) != elems:
            raise OracleBug("range slice: spec %r python %r" % (elems, list(native)))
        return native  # canon lists its elements: R[...]
    r = rebuild(x, pos)
    if r != native:
        raise OracleBug("slice: spec %r python %r" % (r, native))
    return r


def op_index(x, i):
    if not is_int(i):
        raise Err("index must be int")
    n = len(x)
    if not (-n <= i < n):
        raise Err("index out of range")
    if isinstance(x, bytes):
        return UNJUDGED  # D8
    v = x[i]
    if v != x[i + n if i < 0 else i]:
        raise OracleBug("index")
    return v


# ---------------------------------------------------------------------------
# string methods

def trailing(args):
    """Drop omitted trailing arguments; an omitted argument before a given one is not a call shape."""
    args = list(args)
    while args and args[-1] is ABSENT:
        args.pop()
    if any(a is ABSENT for a in args):
        return None
    return args


def native_range_args(i, j):
    a = [none_if_absent(i), none_if_absent(j)]
    return a


def op_find(x, m, needle, i, j):
    if trailing([i, j]) is None:
        return SKIP
    if not isinstance(needle, str):
        raise Err("needle must be a string")
    s, a = sub(x, i, j)
    if m == "find":
        r = s.find(needle)
        r = r if r < 0 else r + a
    elif m == "rfind":
        r = s.rfind(needle)
        r = r if r < 0 else r + a
    elif m == "index":
        r = prim(s.index, needle) + a
    elif m == "rindex":
        r = prim(s.rindex, needle) + a
    elif m == "count":
        r = s.count(needle)
    else:
        raise OracleBug(m)
    return r


def check_find_native(x, m, needle, i, j, spec):
    """Cross-check against Python's own method; differences only in class D1."""
    try:
        nat = getattr(x, m)(needle, none_if_absent(i), none_if_absent(j))
    except ValueError:
        nat = Err
    if nat == spec:
        return
    n = len(x)
    a, b = eff_index(i, n, 0), eff_index(j, n, n)
    raw_i = none_if_absent(i)
    if needle == "" and (a > b or (raw_i is not None and raw_i > n)):
        return  # D1
    raise OracleBug("%s(%r,%r,%r,%r): spec %r python %r" % (m, x, needle, i, j, spec, nat))


def op_find_checked(x, m, needle, i, j):
    try:
        r = op_find(x, m, needle, i, j)
    except Err:
        check_find_native(x, m, needle, i, j, Err)
        raise
    if r is not SKIP:
        check_find_native(x, m, needle, i, j, r)
    return r


def op_swith(x, m, p, i, j):
    if trailing([i, j]) is None:
        return SKIP
    s, _ = sub(x, i, j)
    if isinstance(p, str):
        ps = (p,)
    elif isinstance(p, tuple):
        ps = p
        for e in ps:
            if not isinstance(e, str):
                raise Err("tuple element must be a string")
    else:
        raise Err("prefix must be a string or tuple of strings")
    f = s.startswith if m == "startswith" else s.endswith
    r = any(f(e) for e in ps)
    nat = getattr(x, m)(p, none_if_absent(i), none_if_absent(j))
    if nat != r:
        n = len(x)
        a, b = eff_index(i, n, 0), eff_index(j, n, n)
        raw_i = none_if_absent(i)
        if "" in ps and (a > b or (raw_i is not None and raw_i > n)):
            pass  # D1
        else:
            raise OracleBug("%s(%r,%r,%r,%r): spec %r python %r" % (m, x, p, i, j, r, nat))
    return r


def op_split(x, m, sep, maxsplit):
    if trailing([sep, maxsplit]) is None:
        return SKIP
    if maxsplit is ABSENT:
        maxsplit = -1
    if not is_int(maxsplit):
        raise OracleBug("maxsplit shape not generated")
    if maxsplit < 0:
        maxsplit = -1  # "if given and non-negative, it specifies a maximum"
    f = x.split if m == "split" else x.rsplit
    if sep is ABSENT or sep is None:
        return f(None, maxsplit)
    if not isinstance(sep, str):
        raise Err("separator must be a string")
    if sep == "":
        raise Err("empty separator")
    r = f(sep, maxsplit)
    if m == "rsplit":
        # "splits like S.split, except that when a maximum number of splits is
        # specified, rsplit chooses the rightmost splits".  When occurrences of
        # sep overlap ("aaa".rsplit("aa",1)) the split points found scanning from
        # the right (Python: ["a",""]) differ from the rightmost of the points
        # that split() finds (["","a"]); the wording admits both.
        parts = x.split(sep)
        if maxsplit >= 0 and len(parts) - 1 > maxsplit:
            excess = len(parts) - maxsplit
            parts = [sep.join(parts[:excess])] + parts[excess:]
        if parts != r:
            return Alt(r, parts)
    return r


def op_splitlines(x, keepends):
    if keepends is ABSENT:
        keepends = False
    if not isinstance(keepends, bool):
        raise OracleBug("keepends shape not generated")
    if x == "":
        return []
    parts = x.split("\n")
    terminated = [True] * (len(parts) - 1) + [False]
    if x.endswith("\n"):
        parts.pop()
        terminated.pop()
    r = [p + ("\n" if keepends and t else "") for p, t in zip(parts, terminated)]
    if not any(ch in x for ch in "\r\x0b\x0c\x1c\x1d\x1e\x85  "):
        if r != x.splitlines(keepends):  # D5 otherwise
            raise OracleBug("splitlines %r" % (x,))
    return r


def op_partition(x, m, sep):
    if not isinstance(sep, str):
        raise Err("separator must be a string")
    if sep == "":
        raise Err("empty separator")
    return x.partition(sep) if m == "partition" else x.rpartition(sep)


def op_strip(x, m, chars):
    if chars is ABSENT:
        return getattr(x, m)()
    if not isinstance(chars, str):
        raise OracleBug("cutset shape not generated")
    # "removes all leading and trailing code points contained in cutset"
    lo, hi = 0, len(x)
    if m in ("strip", "lstrip"):
        while lo < hi and x[lo] in chars:
            lo += 1
    if m in ("strip", "rstrip"):
        while hi > lo and x[hi - 1] in chars:
            hi -= 1
    r = x[lo:hi]
    if r != getattr(x, m)(chars):
        raise OracleBug("strip")
    return r


def op_replace(x, old, new, count):
    if count is ABSENT:
        return x.replace(old, new)
    if not is_int(count):
        raise Err("count must be int")
    if count < 0:
        count = -1
    return x.replace(old, new, count)


def op_join(sep, it):
    if not is_iterable(it):
        raise Err("join: argument must be iterable")  # D2
    it = list(it)
    for e in it:
        if not isinstance(e, str):
            raise Err("join: elements must be strings")
    return sep.join(it)


def op_fix(x, m, f):
    if not isinstance(f, str):
        raise Err("want string")
    return x.removeprefix(f) if m == "removeprefix" else x.removesuffix(f)


def op_case(x, m):
    return getattr(x, m)()


def op_elems(x, m):
    if m in ("elems", "codepoints"):
        return [c for c in x]
    return [ord(c) for c in x]


# ---------------------------------------------------------------------------
# str/repr of Starlark values (repr: "All strings in the result are double-quoted")

def sl_repr(v):
    if v is None:
        return "None"
    if v is True:
        return "True"
    if v is False:
        return "False"
    if isinstance(v, int):
        return str(v)
    if isinstance(v, str):
        for ch in v:
            if not (32 <= ord(ch) < 127) or ch in '"\\':
                raise OracleBug("repr of a string needing escapes is not modelled")
        return '"' + v + '"'
    if isinstance(v, list):
        return "[" + ", ".join(sl_repr(e) for e in v) + "]"
    if isinstance(v, tuple):
        if len(v) == 1:
            return "(" + sl_repr(v[0]) + ",)"
        return "(" + ", ".join(sl_repr(e) for e in v) + ")"
    raise OracleBug("sl_repr %r" % (v,))


def sl_str(v):
    return v if isinstance(v, str) else sl_repr(v)


class W:
    """Presents a Starlark value to Python's str.format."""

    def __init__(self, v):
        self.v = v

    def __str__(self):
        return sl_str(self.v)

    def __repr__(self):
        return sl_repr(self.v)

    def __format__(self, spec):
        if spec != "":
            raise ValueError("format spec must be empty")  # D3
        return sl_str(self.v)


def op_format(fmt, args, kwargs):
    a = [W(v) for v in args]
    k = {name: W(v) for name, v in kwargs.items()}
    return prim(fmt.format, *a, **k)


def op_percent(fmt, operand):
    """§ String interpolation, transcribed."""
    convs = 0
    keyed = 0
    # first pass: count conversions (to decide how the operand is used)
    i = 0
    items = []  # ("lit", text) | ("conv", key|None, letter)
    n = len(fmt)
    buf = ""
    while i < n:
        ch = fmt[i]
        if ch != "%":
            buf += ch
            i += 1
            continue
        if i + 1 < n and fmt[i + 1] == "%":
            buf += "%"
            i += 2
            continue
        i += 1
        key = None
        if i < n and fmt[i] == "(":
            j = fmt.find(")", i)
            if j < 0:
                raise Err("incomplete format key")
            key = fmt[i + 1:j]
            i = j + 1
            keyed += 1
        if i >= n:
            raise Err("incomplete format")
        letter = fmt[i]
        i += 1
        if letter not in "srdioxXc":
            if letter in "eEfFgG":
                raise OracleBug("%e/%f/%g are not generated")
            raise Err("unknown conversion")
        items.append(("lit", buf))
        buf = ""
        items.append(("conv", key, letter))
        convs += 1
    items.append(("lit", buf))
    positional = convs - keyed
    if keyed and positional:
        return SKIP  # mixed shapes: not generated
    if keyed:
        if not isinstance(operand, dict):
            raise Err("format requires a mapping")
    elif isinstance(operand, dict):
        if convs:
            return SKIP  # a dict as the operand of a positional conversion: not generated
        # no conversions: operand must be a Mapping or an empty tuple
    if not keyed:
        if isinstance(operand, tuple):
            ops = list(operand)
        elif isinstance(operand, dict):
            ops = []
        else:
            ops = [operand]
        if convs == 0:
            if not (isinstance(operand, dict) or operand == ()):
                raise Err("operand must be a Mapping or an empty tuple")
        elif len(ops) != convs:
            raise Err("wrong number of operands")
    out = ""
    k = 0
    for it in items:
        if it[0] == "lit":
            out += it[1]
            continue
        _, key, letter = it
        if key is not None:
            if key not in operand:
                raise Err("key not found")
            v = operand[key]
        else:
            v = ops[k]
            k += 1
        if letter == "s":
            out += sl_str(v)
        elif letter == "r":
            out += sl_repr(v)
        elif letter in "dioxX":
            if not is_int(v):  # D4: a Boolean is not a number; floats not generated
                raise Err("number required")
            out += {"d": "%d", "i": "%i", "o": "%o", "x": "%x", "X": "%X"}[letter] % v
        elif letter == "c":
            if is_int(v):
                if not (0 <= v <= 0x10FFFF):
                    raise Err("not a code point")
                if v > 127:
                    raise OracleBug("non-ASCII %c not generated")
                out += chr(v)
            elif isinstance(v, str):
                if len(v) != 1:
                    raise Err("%c requires a single code point")
                out += v
            else:
                raise Err("%c requires int or string")
    return out


def op_percent_checked(fmt, operand):
    try:
        r = op_percent(fmt, operand)
    except Err:
        r = Err
    if r is SKIP:
        return r
    # cross-check with Python's % when str/repr cannot differ (operands made of ints only)
    def only_ints(v):
        if is_int(v):
            return True
        if isinstance(v, tuple):
            return all(is_int(e) for e in v)
        if isinstance(v, dict):
            return all(is_int(e) for e in v.values())
        return False
    if only_ints(operand):
        try:
            nat = fmt % operand
        except PYFAIL:
            nat = Err
        if nat != r:
            raise OracleBug("%r %% %r: spec %r python %r" % (fmt, operand, r, nat))
    if r is Err:
        raise Err("interpolation fails")
    return r


# ---------------------------------------------------------------------------
# list methods (result: return value ; list afterwards)

class Pair:
    def __init__(self, ret, after):
        self.ret, self.after = ret, after


def op_list(x, m, *args):
    a = trailing(args)
    if a is None:
        return SKIP
    L = list(x)
    n = len(L)
    if m == "append":
        L.append(a[0])
        return Pair(None, L)
    if m == "insert":
        i = eff_index(a[0], n, None)
        if i is None:
            raise Err("insert index must be int")
        L.insert(i, a[1])
        return Pair(None, L)
    if m == "pop":
        if not a:
            if n == 0:
                raise Err("pop from empty list")
            return Pair(L.pop(), L)
        i = a[0]
        if not is_int(i) or not (-n <= i < n):
            raise Err("pop index not valid for L[i]")
        return Pair(L.pop(i), L)
    if m == "index":
        v = a[0]
        lo = eff_index(a[1] if len(a) > 1 else ABSENT, n, 0)
        hi = eff_index(a[2] if len(a) > 2 else ABSENT, n, n)
        for k in range(lo, hi):
            if L[k] == v:
                try:
                    nat = L.index(v, lo, hi)
                except ValueError:
                    nat = None
                if nat != k:
                    raise OracleBug("list.index")
                return Pair(k, L)
        try:
            L.index(v, lo, hi)
            raise OracleBug("list.index found")
        except ValueError:
            pass
        raise Err("value not in list")
    if m == "remove":
        prim(L.remove, a[0])
        return Pair(None, L)
    if m == "extend":
        if not is_iterable(a[0]):
            raise Err("extend: not iterable")  # D2 for strings
        L.extend(list(a[0]))
        return Pair(None, L)
    raise OracleBug(m)


# ---------------------------------------------------------------------------
# sequence built-ins

def need_iterable(x):
    if not is_iterable(x):
        raise Err("not iterable")  # D2 for strings
    return list(x)


def starlark_orderable(a, b):
    """Ordered comparison is defined for two ints, two strings, two tuples/lists
    (element-wise).  Python additionally orders bool with int; not generated."""
    return True


def op_seq(fn, args, kwargs):
    if fn == "reversed":
        (x,) = args
        return list(reversed(need_iterable(x)))
    if fn == "any":
        (x,) = args
        return any(need_iterable(x))
    if fn == "all":
        (x,) = args
        return all(need_iterable(x))
    if fn == "sorted":
        (x,) = args
        kw = {}
        if "key" in kwargs:
            kw["key"] = kwargs["key"]
        if "reverse" in kwargs:
            kw["reverse"] = kwargs["reverse"]
        return prim(sorted, need_iterable(x), **kw)
    if fn in ("min", "max"):
        f = min if fn == "min" else max
        kw = {}
        if "key" in kwargs:
            kw["key"] = kwargs["key"]
        if len(args) == 0:
            raise Err("at least one argument")
        if len(args) == 1:
            seq = need_iterable(args[0])
        else:
            seq = list(args)
        if not seq:
            raise Err("empty sequence")
        return prim(f, seq, **kw)
    if fn == "zip":
        return [tuple(t) for t in zip(*[need_iterable(a) for a in args])]
    if fn == "enumerate":
        a = trailing(args)
        if a is None:
            return SKIP
        x = need_iterable(a[0])
        start = a[1] if len(a) > 1 else 0
        if not is_int(start):
            raise Err("start must be int")
        return [tuple(t) for t in enumerate(x, start)]
    raise OracleBug(fn)


# ---------------------------------------------------------------------------
# + and *

def op_concat(x, y):
    if isinstance(x, bytes) and isinstance(y, bytes):
        return DONTCARE  # doc/spec.md lists string+string, list+list, tuple+tuple only
    for t in (str, list, tuple):
        if isinstance(x, t) and isinstance(y, t) and not isinstance(x, bool):
            return x + y
    raise Err("+ needs two operands of the same sequence type")


def op_repeat(x, y):
    """The order of the operands is immaterial; negative n behaves like zero."""
    if is_int(x) and isinstance(y, (str, bytes, list, tuple)):
        x, y = y, x
    if isinstance(x, (str, bytes, list, tuple)) and is_int(y):
        if y <= 0 or len(x) == 0:
            return x[:0]  # (CPython refuses counts beyond the index range even for an empty operand)
        return x * y
    raise Err("* needs a sequence and an int")


def op_persist(x, u):
    """every derived value is what its own expression denotes, whatever is computed afterwards"""
    for t in (str, list, tuple):
        if isinstance(x, t) and isinstance(u, t):
            break
    else:
        raise Err("operands of different sequence types")
    a = x[:2]
    b = a + u
    c = a + u[:1]
    d = x[1:]
    e = d + u
    f = x + u
    g = f[:len(x)] + u
    h = x * 1
    i = h + u
    j = (x + u)[::2]
    k = j + u
    m = j + x
    n = x[:0] + u
    o = n + x
    return [x, u, a, b, c, d, e, f, g, h, i, j, k, m, n, o]


OPS = {
    "persist": op_persist,
    "slice": op_slice,
    "index": op_index,
    "find": op_find_checked,
    "swith": op_swith,
    "split": op_split,
    "splitlines": op_splitlines,
    "partition": op_partition,
    "strip": op_strip,
    "replace": op_replace,
    "join": op_join,
    "fix": op_fix,
    "case": op_case,
    "elems": op_elems,
    "format": op_format,
    "percent": op_percent_checked,
    "list": op_list,
    "seq": op_seq,
    "concat": op_concat,
    "repeat": op_repeat,
}


def run_request(req):
    fn = OPS[req["op"]]
    axes = [[dec(v) for v in ax] for ax in req["axes"]]
    out = []
    for pt in itertools.product(*axes):
        try:
            r = fn(*pt)
        except Err:
            out.append("!")
            continue
        if r is SKIP:
            out.append("~")
        elif r is UNJUDGED:
            out.append("?")
        elif r is DONTCARE:
            out.append("*")
        elif isinstance(r, Alt):
            out.append("?alt " + canon(r.a) + " ||| " + canon(r.b))
        elif isinstance(r, Pair):
            out.append(canon(r.ret) + ";" + canon(r.after))
        else:
            out.append(canon(r))
    return out


def main():
    out = sys.stdout
    for line in sys.stdin:
        line = line.strip()
        if not line:
            continue
        req = json.loads(line)
        try:
            res = {"id": req.get("id", 0), "r": run_request(req)}
        except Exception:
            res = {"id": req.get("id", 0), "bug": traceback.format_exc()}
        out.write(json.dumps(res, separators=(",", ":")))
        out.write("\n")
        out.flush()


if __name__ == "__main__":
    main()
