package c13

import (
	"bufio"
	"bytes"
	"encoding/json"
	"fmt"
	"io"
	"math/big"
	"os"
	"os/exec"
	"strconv"
	"strings"

	"go.starlark.net/starlark"
	"go.starlark.net/syntax"

	"verif/internal/fw"
)

// ---------------------------------------------------------------------------
// tagged argument values (JSON-marshalable; see oracle.py for the encoding)

func vAbsent() any           { return map[string]any{"absent": 1} }
func vBytes(s string) any    { return map[string]any{"b": s} }
func vList(e ...any) any     { return map[string]any{"l": nonNil(e)} }
func vTuple(e ...any) any    { return map[string]any{"t": nonNil(e)} }
func vRange(a, b, c int) any { return map[string]any{"r": []any{a, b, c}} }

// vElems is "s".elems(): a sequence of one-character strings.
func vElems(s string) any { return map[string]any{"e": s} }

// vCodepoints is "s".codepoints(): an iterable of one-character strings that has no length
// (ASCII only, so the elements are those of elems()).
func vCodepoints(s string) any { return map[string]any{"cp": s} }
func vFn(name string) any { return map[string]any{"f": name} }
func vDict(kv ...any) any {
	pairs := []any{}
	for i := 0; i+1 < len(kv); i += 2 {
		pairs = append(pairs, []any{kv[i], kv[i+1]})
	}
	return map[string]any{"d": pairs}
}
func nonNil(e []any) []any {
	if e == nil {
		return []any{}
	}
	return e
}
func pow2(k uint, neg bool) *big.Int {
	z := new(big.Int).Lsh(big.NewInt(1), k)
	if neg {
		z.Neg(z)
	}
	return z
}

func isAbsent(x any) bool {
	m, ok := x.(map[string]any)
	if !ok {
		return false
	}
	_, ok = m["absent"]
	return ok
}

// bigOf returns the integer value of a tagged int, or nil.
func bigOf(x any) *big.Int {
	switch x := x.(type) {
	case int:
		return big.NewInt(int64(x))
	case int64:
		return big.NewInt(x)
	case *big.Int:
		return x
	case json.Number:
		z, ok := new(big.Int).SetString(string(x), 10)
		if ok {
			return z
		}
	case float64:
		if x == float64(int64(x)) {
			return big.NewInt(int64(x))
		}
	}
	return nil
}

func beyondInt32(x any) bool {
	z := bigOf(x)
	return z != nil && (!z.IsInt64() || z.Int64() > 1<<31-1 || z.Int64() < -(1<<31))
}

// toValue builds a fresh Starlark value from a tagged value.
func (h *helpers) toValue(x any) starlark.Value {
	switch x := x.(type) {
	case nil:
		return starlark.None
	case bool:
		return starlark.Bool(x)
	case string:
		return starlark.String(x)
	case map[string]any:
		if v, ok := x["b"]; ok {
			return starlark.Bytes(v.(string))
		}
		if v, ok := x["l"]; ok {
			return starlark.NewList(h.toValues(v.([]any)))
		}
		if v, ok := x["t"]; ok {
			return starlark.Tuple(h.toValues(v.([]any)))
		}
		if v, ok := x["r"]; ok {
			args := h.toValues(v.([]any))
			r, err := starlark.Call(h.th, starlark.Universe["range"], starlark.Tuple(args), nil)
			if err != nil {
				fw.Fatal("c13: range%v: %v", args, err)
			}
			return r
		}
		if v, ok := x["e"]; ok {
			r, err := starlark.Call(h.th, h.g["elems_of"], starlark.Tuple{starlark.String(v.(string))}, nil)
			if err != nil {
				fw.Fatal("c13: elems: %v", err)
			}
			return r
		}
		if v, ok := x["cp"]; ok {
			r, err := starlark.Call(h.th, h.g["codepoints_of"], starlark.Tuple{starlark.String(v.(string))}, nil)
			if err != nil {
				fw.Fatal("c13: codepoints: %v", err)
			}
			return r
		}
		if v, ok := x["d"]; ok {
			d := new(starlark.Dict)
			for _, p := range v.([]any) {
				kv := p.([]any)
				if err := d.SetKey(h.toValue(kv[0]), h.toValue(kv[1])); err != nil {
					fw.Fatal("c13: dict: %v", err)
				}
			}
			return d
		}
		if v, ok := x["f"]; ok {
			name := v.(string)
			if f, ok := h.g["k_"+name]; ok {
				return f
			}
			return starlark.Universe[name]
		}
	}
	if z := bigOf(x); z != nil {
		return starlark.MakeBigInt(z)
	}
	fw.Fatal("c13: cannot build a value from %#v", x)
	return nil
}

func (h *helpers) toValues(xs []any) []starlark.Value {
	out := make([]starlark.Value, len(xs))
	for i, x := range xs {
		out[i] = h.toValue(x)
	}
	return out
}

// typeOfTagged names the Starlark type of a tagged value (for violation keys).
func typeOfTagged(x any) string {
	switch x := x.(type) {
	case nil:
		return "NoneType"
	case bool:
		return "bool"
	case string:
		return "string"
	case map[string]any:
		for _, k := range []struct{ k, t string }{{"b", "bytes"}, {"l", "list"}, {"t", "tuple"}, {"r", "range"}, {"e", "string.elems"}, {"cp", "string.codepoints"}, {"d", "dict"}, {"f", "function"}, {"absent", "absent"}} {
			if _, ok := x[k.k]; ok {
				return k.t
			}
		}
	}
	if bigOf(x) != nil {
		return "int"
	}
	return "?"
}

// ---------------------------------------------------------------------------
// canonical result strings (mirrors canon() in oracle.py)

func q(sb *strings.Builder, s string) {
	sb.WriteByte('"')
	for i := 0; i < len(s); i++ {
		c := s[i]
		if c >= 32 && c < 127 && c != '"' && c != '\\' {
			sb.WriteByte(c)
		} else {
			fmt.Fprintf(sb, "\\x%02x", c)
		}
	}
	sb.WriteByte('"')
}

func canonTo(sb *strings.Builder, v starlark.Value, depth int) {
	if depth > 8 {
		sb.WriteString("?deep")
		return
	}
	switch v := v.(type) {
	case starlark.NoneType:
		sb.WriteByte('N')
	case starlark.Bool:
		if v {
			sb.WriteByte('T')
		} else {
			sb.WriteByte('F')
		}
	case starlark.Int:
		sb.WriteString(v.BigInt().String())
	case starlark.String:
		q(sb, string(v))
	case starlark.Bytes:
		sb.WriteByte('b')
		q(sb, string(v))
	case *starlark.List:
		sb.WriteByte('[')
		for i := 0; i < v.Len(); i++ {
			if i > 0 {
				sb.WriteByte(',')
			}
			canonTo(sb, v.Index(i), depth+1)
		}
		sb.WriteByte(']')
	case starlark.Tuple:
		sb.WriteByte('(')
		for i, e := range v {
			if i > 0 {
				sb.WriteByte(',')
			}
			canonTo(sb, e, depth+1)
		}
		sb.WriteByte(')')
	case *starlark.Dict:
		sb.WriteByte('{')
		for i, it := range v.Items() {
			if i > 0 {
				sb.WriteByte(',')
			}
			canonTo(sb, it[0], depth+1)
			sb.WriteByte(':')
			canonTo(sb, it[1], depth+1)
		}
		sb.WriteByte('}')
	default:
		if v != nil && v.Type() == "range" {
			sb.WriteString("R[")
			it := starlark.Iterate(v)
			var x starlark.Value
			n := 0
			for it.Next(&x) {
				if n > 0 {
					sb.WriteByte(',')
				}
				n++
				canonTo(sb, x, depth+1)
				if n > 64 {
					sb.WriteString("...")
					break
				}
			}
			it.Done()
			// a range must also report the length of what it yields
			if l := starlark.Len(v); l != n && n <= 64 {
				fmt.Fprintf(sb, "|len=%d", l)
			}
			sb.WriteByte(']')
			return
		}
		if v == nil {
			sb.WriteString("?nil")
		} else {
			sb.WriteString("?" + v.Type())
		}
	}
}

func canon(v starlark.Value) string {
	var sb strings.Builder
	canonTo(&sb, v, 0)
	return sb.String()
}

// ---------------------------------------------------------------------------
// helper functions executed by the real interpreter

const helperSrc = `
def sl_abc(x, a, b, c): return x[a:b:c]
def sl_ab_(x, a, b, c): return x[a:b]
def sl_a_c(x, a, b, c): return x[a::c]
def sl_a__(x, a, b, c): return x[a:]
def sl__bc(x, a, b, c): return x[:b:c]
def sl__b_(x, a, b, c): return x[:b]
def sl___c(x, a, b, c): return x[::c]
def sl____(x, a, b, c): return x[:]
def idx(x, i): return x[i]
def add(x, y): return x + y
def mul(x, y): return x * y
def pct(x, y): return x % y
def meth(x, name, args, kwargs): return getattr(x, name)(*args, **kwargs)
def meth_list(x, name): return list(getattr(x, name)())
def callfn(f, args, kwargs): return f(*args, **kwargs)
def persist(x, u):
    # values derived from x and u one after the other; all are looked at only at the end,
    # so that a later operation that writes into storage shared with an earlier result shows
    a = x[:2]
    b = a + u
    c = a + u[:1]
    d = x[1:]
    e = d + u
    f = x + u
    g = f[:len(x)] + u
    h = x * 1
    i = h + u
    j = (x + u)[::2]
    k = j + u
    m = j + x
    n = x[:0] + u
    o = n + x
    return [x, u, a, b, c, d, e, f, g, h, i, j, k, m, n, o]
def elems_of(s): return s.elems()
def codepoints_of(s): return s.codepoints()
def k_neg(x): return -x
def k_first(t): return t[0]
`

type helpers struct {
	th *starlark.Thread
	g  starlark.StringDict
}

func newHelpers() *helpers {
	th := &starlark.Thread{Name: "c13"}
	g, err := starlark.ExecFileOptions(&syntax.FileOptions{}, th, "c13helpers.star", helperSrc, nil)
	if err != nil {
		fw.Fatal("c13 helpers: %v", err)
	}
	return &helpers{th: th, g: g}
}

func (h *helpers) call(fn string, args ...starlark.Value) (starlark.Value, error) {
	return starlark.Call(h.th, h.g[fn], starlark.Tuple(args), nil)
}

// given drops omitted trailing arguments.
func given(args []any) []any {
	for len(args) > 0 && isAbsent(args[len(args)-1]) {
		args = args[:len(args)-1]
	}
	return args
}

func (h *helpers) method(recv starlark.Value, name string, args []any, kwargs *starlark.Dict) (starlark.Value, error) {
	if kwargs == nil {
		kwargs = new(starlark.Dict)
	}
	return h.call("meth", recv, starlark.String(name), starlark.Tuple(h.toValues(given(args))), kwargs)
}

// execOp runs one case against the implementation and returns its canonical
// result ("!" = failed) and, for failures, the error text.
func (h *helpers) execOp(op string, pt []any) (res string, errText string) {
	defer func() {
		if r := recover(); r != nil {
			res, errText = "PANIC", fmt.Sprint(r)
		}
	}()
	var v starlark.Value
	var err error
	var after *starlark.List
	switch op {
	case "slice":
		x := h.toValue(pt[0])
		name := []byte("sl____")
		args := []starlark.Value{x, starlark.None, starlark.None, starlark.None}
		for i := 0; i < 3; i++ {
			if !isAbsent(pt[1+i]) {
				name[3+i] = "abc"[i]
				args[1+i] = h.toValue(pt[1+i])
			}
		}
		v, err = h.call(string(name), args...)
	case "index":
		v, err = h.call("idx", h.toValue(pt[0]), h.toValue(pt[1]))
	case "find", "swith", "split", "partition", "strip", "fix", "case":
		// point = (receiver, method, args...)
		v, err = h.method(h.toValue(pt[0]), pt[1].(string), pt[2:], nil)
	case "splitlines":
		v, err = h.method(h.toValue(pt[0]), "splitlines", pt[1:], nil)
	case "replace":
		v, err = h.method(h.toValue(pt[0]), "replace", pt[1:], nil)
	case "join":
		v, err = h.method(h.toValue(pt[0]), "join", pt[1:], nil)
	case "elems":
		v, err = h.call("meth_list", h.toValue(pt[0]), starlark.String(pt[1].(string)))
	case "format":
		args := pt[1].(map[string]any)["t"].([]any)
		kw, _ := h.toValue(pt[2]).(*starlark.Dict)
		v, err = h.method(h.toValue(pt[0]), "format", args, kw)
	case "percent":
		v, err = h.call("pct", h.toValue(pt[0]), h.toValue(pt[1]))
	case "list":
		after = h.toValue(pt[0]).(*starlark.List)
		v, err = h.method(after, pt[1].(string), pt[2:], nil)
	case "seq":
		args := pt[1].(map[string]any)["t"].([]any)
		kw, _ := h.toValue(pt[2]).(*starlark.Dict)
		v, err = h.call("callfn", starlark.Universe[pt[0].(string)], starlark.Tuple(h.toValues(given(args))), kw)
	case "concat":
		v, err = h.call("add", h.toValue(pt[0]), h.toValue(pt[1]))
	case "repeat":
		v, err = h.call("mul", h.toValue(pt[0]), h.toValue(pt[1]))
	case "persist":
		v, err = h.call("persist", h.toValue(pt[0]), h.toValue(pt[1]))
	default:
		fw.Fatal("c13: unknown op %q", op)
	}
	if err != nil {
		return "!", err.Error()
	}
	if after != nil {
		return canon(v) + ";" + canon(after), ""
	}
	return canon(v), ""
}

// ---------------------------------------------------------------------------
// the oracle process

type request struct {
	ID   int     `json:"id"`
	Op   string  `json:"op"`
	Axes [][]any `json:"axes"`
}

type response struct {
	ID  int      `json:"id"`
	R   []string `json:"r"`
	Bug string   `json:"bug"`
}

type oracle struct {
	cmd   *exec.Cmd
	in    io.WriteCloser
	out   *bufio.Reader
	errb  bytes.Buffer
	count int
}

func startOracle() *oracle {
	o := &oracle{}
	o.cmd = exec.Command(pythonPath(), "-S", fw.EngineDir()+"/internal/c13/oracle.py")
	o.cmd.Stderr = &o.errb
	var err error
	if o.in, err = o.cmd.StdinPipe(); err != nil {
		fw.Fatal("c13 oracle: %v", err)
	}
	outp, err := o.cmd.StdoutPipe()
	if err != nil {
		fw.Fatal("c13 oracle: %v", err)
	}
	o.out = bufio.NewReaderSize(outp, 1<<20)
	if err := o.cmd.Start(); err != nil {
		fw.Fatal("c13 oracle: cannot start python3: %v", err)
	}
	return o
}

// pythonPath prefers a real interpreter over version-manager shims (which
// cost seconds per start).
func pythonPath() string {
	for _, p := range []string{"/usr/bin/python3", "/usr/local/bin/python3"} {
		if st, err := os.Stat(p); err == nil && !st.IsDir() {
			return p
		}
	}
	return "python3"
}

func (o *oracle) ask(op string, axes [][]any) []string {
	o.count++
	req := request{ID: o.count, Op: op, Axes: axes}
	b, err := json.Marshal(&req)
	if err != nil {
		fw.Fatal("c13 oracle: marshal: %v", err)
	}
	b = append(b, '\n')
	if _, err := o.in.Write(b); err != nil {
		fw.Fatal("c13 oracle: write: %v (stderr: %s)", err, o.errb.String())
	}
	line, err := o.out.ReadBytes('\n')
	if err != nil {
		fw.Fatal("c13 oracle: read: %v (stderr: %s)", err, o.errb.String())
	}
	var resp response
	if err := json.Unmarshal(line, &resp); err != nil {
		fw.Fatal("c13 oracle: bad response: %v", err)
	}
	if resp.Bug != "" {
		fw.Fatal("c13 oracle failed on op %s (oracle bug, not a violation):\n%s\nrequest: %s", op, resp.Bug, trunc(string(b), 2000))
	}
	if resp.ID != req.ID {
		fw.Fatal("c13 oracle: response id %d for request %d", resp.ID, req.ID)
	}
	n := 1
	for _, ax := range axes {
		n *= len(ax)
	}
	if len(resp.R) != n {
		fw.Fatal("c13 oracle: %d results for %d cases of op %s", len(resp.R), n, op)
	}
	return resp.R
}

func (o *oracle) close() {
	o.in.Close()
	o.cmd.Wait()
}

func trunc(s string, n int) string {
	if len(s) > n {
		return s[:n] + "…"
	}
	return s
}

func itoa(i int) string { return strconv.Itoa(i) }
