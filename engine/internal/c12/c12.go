// Package c12 decides C12: dict and set behave as insertion-ordered maps
// under every operation history.
//
// Shape S: explicit-state breadth-first search over the *real* Dict/Set.  A
// state is a real object reached by replaying the shortest operation path on a
// fresh instance; its canonical key is the private table layout (guarded hook
// VerifLayout: table size, every bucket chain slot with key and stored hash,
// the order list) which is everything the future behaviour of
// insert/lookup/delete/grow/clear can depend on.  After every transition the
// real object is compared with an ordered association list.
package c12

import (
	"crypto/sha256"
	"encoding/json"
	"fmt"
	"runtime"
	"sort"
	"strings"
	"sync"
	"time"

	"go.starlark.net/starlark"
	"go.starlark.net/syntax"

	"verif/internal/fw"
)

// K is a harness key: explorer-chosen hash, identity equality.
type K struct {
	ID int
	H  uint32
}

func (k K) String() string        { return fmt.Sprintf("k%d", k.ID) }
func (k K) Type() string          { return "K" }
func (k K) Freeze()               {}
func (k K) Truth() starlark.Bool  { return true }
func (k K) Hash() (uint32, error) { return k.H, nil }

func keyName(v starlark.Value) string {
	if k, ok := v.(K); ok {
		return k.String()
	}
	return "?" + v.String()
}

// ---------------------------------------------------------------------------
// reference model: ordered association list

type mEntry struct{ k, v int }
type model struct{ e []mEntry }

func (m *model) find(k int) int {
	for i, e := range m.e {
		if e.k == k {
			return i
		}
	}
	return -1
}
func (m *model) set(k, v int) {
	if i := m.find(k); i >= 0 {
		m.e[i].v = v
	} else {
		m.e = append(m.e, mEntry{k, v})
	}
}
func (m *model) del(k int) (int, bool) {
	i := m.find(k)
	if i < 0 {
		return 0, false
	}
	v := m.e[i].v
	m.e = append(m.e[:i:i], m.e[i+1:]...)
	return v, true
}
func (m *model) clone() *model { return &model{e: append([]mEntry(nil), m.e...)} }
func (m *model) String() string {
	var sb strings.Builder
	for _, e := range m.e {
		fmt.Fprintf(&sb, "k%d=%d,", e.k, e.v)
	}
	return sb.String()
}

// ---------------------------------------------------------------------------
// configurations

type config struct {
	name     string
	set      bool // Set rather than Dict
	keys     []K
	presize  int  // 0: new(Dict) zero value; -1: NewDict(0); n: NewDict(n)
	sym      bool // keys interchangeable: canonicalise by order position
	ops      []op
	vals     bool // include values in the state key
	maxDepth int
	prefill  int // the search starts from the table that holds the first prefill keys (inserted in order)
}

// state is a live implementation object with its model.
type state struct {
	d   *starlark.Dict
	s   *starlark.Set
	m   *model
	th  *starlark.Thread
	cfg *config
	h   *helpers
}

type op struct {
	name string
	// apply performs the operation on real object and model and returns a
	// description of any disagreement in the operation's own result.
	apply func(st *state) string
}

const helperSrc = `
def d_set(d, k, v): d[k] = v
def d_get(d, k): return d[k]
def d_in(d, k): return k in d
def d_for(d): return [k for k in d]
def d_or(d, o): return d | o
def d_ior(d, o):
    d |= o
    return d
def s_or(s, o): return s | o
def s_and(s, o): return s & o
def s_sub(s, o): return s - o
def s_xor(s, o): return s ^ o
def s_ior(s, o):
    s |= o
    return s
def s_iand(s, o):
    s &= o
    return s
def s_isub(s, o):
    s -= o
    return s
def s_ixor(s, o):
    s ^= o
    return s
def forloop(x):
    r = []
    for k in x:
        r.append(k)
    return r
def lenof(x): return len(x)
def listof(x): return list(x)
`

type helpers struct{ g starlark.StringDict }

var (
	helperOnce sync.Once
	theHelpers *helpers
)

func getHelpers() *helpers {
	helperOnce.Do(func() {
		th := &starlark.Thread{Name: "c12-helpers"}
		g, err := starlark.ExecFileOptions(&syntax.FileOptions{Set: true, GlobalReassign: true, TopLevelControl: true, While: true}, th, "c12helpers.star", helperSrc, nil)
		if err != nil {
			fw.Fatal("c12 helpers: %v", err)
		}
		theHelpers = &helpers{g: g}
	})
	return theHelpers
}

func (st *state) call(fn string, args ...starlark.Value) (starlark.Value, error) {
	return starlark.Call(st.th, st.h.g[fn], starlark.Tuple(args), nil)
}

func (st *state) recv() starlark.Value {
	if st.cfg.set {
		return st.s
	}
	return st.d
}

func (st *state) method(name string, args ...starlark.Value) (starlark.Value, error) {
	m, err := st.recv().(starlark.HasAttrs).Attr(name)
	if err != nil || m == nil {
		return nil, fmt.Errorf("no method %s: %v", name, err)
	}
	return starlark.Call(st.th, m, starlark.Tuple(args), nil)
}

func val(v int) starlark.Value { return starlark.MakeInt(v) }

func valOf(v starlark.Value) int {
	if i, ok := v.(starlark.Int); ok {
		n, _ := i.Int64()
		return int(n)
	}
	return -999
}

func newState(cfg *config, th *starlark.Thread) *state {
	st := &state{m: &model{}, th: th, cfg: cfg, h: getHelpers()}
	if cfg.set {
		switch {
		case cfg.presize == 0:
			st.s = new(starlark.Set)
		case cfg.presize < 0:
			st.s = starlark.NewSet(0)
		default:
			st.s = starlark.NewSet(cfg.presize)
		}
	} else {
		switch {
		case cfg.presize == 0:
			st.d = new(starlark.Dict)
		case cfg.presize < 0:
			st.d = starlark.NewDict(0)
		default:
			st.d = starlark.NewDict(cfg.presize)
		}
	}
	for _, k := range cfg.keys[:cfg.prefill] {
		st.m.set(k.ID, 1)
		var err error
		if cfg.set {
			err = st.s.Insert(k)
		} else {
			err = st.d.SetKey(k, val(1))
		}
		if err != nil {
			panic(fmt.Sprintf("c12: prefill: %v", err))
		}
	}
	return st
}

func (st *state) rawLayout() string {
	if st.cfg.set {
		return st.s.VerifLayout(keyName)
	}
	return st.d.VerifLayout(keyName)
}

// canonical key of the state.
func (st *state) key() string {
	name := keyName
	if st.cfg.sym {
		pos := map[int]int{}
		for i, e := range st.m.e {
			pos[e.k] = i
		}
		// Position in the *implementation's* order list, so that a wrong order is not hidden.
		ipos := map[int]int{}
		var keys []starlark.Value
		if st.cfg.set {
			it := st.s.Iterate()
			var x starlark.Value
			for it.Next(&x) {
				keys = append(keys, x)
			}
			it.Done()
		} else {
			keys = st.d.Keys()
		}
		for i, k := range keys {
			if kk, ok := k.(K); ok {
				ipos[kk.ID] = i
			}
		}
		name = func(v starlark.Value) string {
			if k, ok := v.(K); ok {
				if p, ok := ipos[k.ID]; ok {
					return fmt.Sprintf("p%d", p)
				}
			}
			return "?" + v.String()
		}
	}
	var lay string
	if st.cfg.set {
		lay = st.s.VerifLayout(name)
	} else {
		lay = st.d.VerifLayout(name)
	}
	if st.cfg.vals && !st.cfg.set {
		var sb strings.Builder
		sb.WriteString(lay)
		sb.WriteString("|vals=")
		for _, it := range st.d.Items() {
			sb.WriteString(it[1].String())
			sb.WriteByte(',')
		}
		return sb.String()
	}
	return lay
}

// ---------------------------------------------------------------------------
// oracle: full observable comparison after every transition

func keysToIDs(vs []starlark.Value) string {
	var sb strings.Builder
	for _, v := range vs {
		sb.WriteString(keyName(v))
		sb.WriteByte(',')
	}
	return sb.String()
}

func (m *model) keyString() string {
	var sb strings.Builder
	for _, e := range m.e {
		fmt.Fprintf(&sb, "k%d,", e.k)
	}
	return sb.String()
}

func listElems(v starlark.Value) []starlark.Value {
	var out []starlark.Value
	it := starlark.Iterate(v)
	if it == nil {
		return nil
	}
	defer it.Done()
	var x starlark.Value
	for it.Next(&x) {
		out = append(out, x)
	}
	return out
}

func (st *state) observe() string {
	m := st.m
	want := m.keyString()
	var errs []string
	bad := func(f string, a ...any) { errs = append(errs, fmt.Sprintf(f, a...)) }
	r := st.recv()
	if n := starlark.Len(r); n != len(m.e) {
		bad("Len()=%d model=%d", n, len(m.e))
	}
	if v, err := st.call("lenof", r); err != nil || valOf(v) != len(m.e) {
		bad("len(x)=%v,%v model=%d", v, err, len(m.e))
	}
	// iteration order through every path
	if got := keysToIDs(listElems(r)); got != want {
		bad("Iterate order %s model %s", got, want)
	}
	if v, err := st.call("forloop", r); err != nil {
		bad("for loop: %v", err)
	} else if got := keysToIDs(listElems(v)); got != want {
		bad("for-loop order %s model %s", got, want)
	}
	if v, err := st.call("listof", r); err != nil {
		bad("list(x): %v", err)
	} else if got := keysToIDs(listElems(v)); got != want {
		bad("list(x) order %s model %s", got, want)
	}
	if st.cfg.set {
		var ks []starlark.Value
		for k := range st.s.Elements() {
			ks = append(ks, k)
		}
		if got := keysToIDs(ks); got != want {
			bad("Elements order %s model %s", got, want)
		}
		for _, k := range st.cfg.keys {
			has, err := st.s.Has(k)
			if err != nil || has != (m.find(k.ID) >= 0) {
				bad("Has(%v)=%v,%v model=%v", k, has, err, m.find(k.ID) >= 0)
			}
			v, err := st.call("d_in", r, k)
			if err != nil || bool(v.(starlark.Bool)) != (m.find(k.ID) >= 0) {
				bad("%v in s = %v,%v", k, v, err)
			}
		}
		if st.s.Truth() != starlark.Bool(len(m.e) > 0) {
			bad("Truth")
		}
	} else {
		if got := keysToIDs(st.d.Keys()); got != want {
			bad("Keys order %s model %s", got, want)
		}
		var sb, wb strings.Builder
		for _, it := range st.d.Items() {
			fmt.Fprintf(&sb, "%s=%d,", keyName(it[0]), valOf(it[1]))
		}
		if sb.String() != m.String() {
			bad("Items %s model %s", sb.String(), m.String())
		}
		sb.Reset()
		for k, v := range st.d.Entries() {
			fmt.Fprintf(&sb, "%s=%d,", keyName(k), valOf(v))
		}
		if sb.String() != m.String() {
			bad("Entries %s model %s", sb.String(), m.String())
		}
		for _, meth := range []string{"keys", "values", "items"} {
			v, err := st.method(meth)
			if err != nil {
				bad("%s(): %v", meth, err)
				continue
			}
			sb.Reset()
			wb.Reset()
			for i, x := range listElems(v) {
				switch meth {
				case "keys":
					sb.WriteString(keyName(x) + ",")
				case "values":
					fmt.Fprintf(&sb, "%d,", valOf(x))
				case "items":
					t, ok := x.(starlark.Tuple)
					if !ok || len(t) != 2 {
						sb.WriteString("?")
					} else {
						fmt.Fprintf(&sb, "%s=%d,", keyName(t[0]), valOf(t[1]))
					}
				}
				_ = i
			}
			for _, e := range m.e {
				switch meth {
				case "keys":
					fmt.Fprintf(&wb, "k%d,", e.k)
				case "values":
					fmt.Fprintf(&wb, "%d,", e.v)
				case "items":
					fmt.Fprintf(&wb, "k%d=%d,", e.k, e.v)
				}
			}
			if sb.String() != wb.String() {
				bad("%s() = %s model %s", meth, sb.String(), wb.String())
			}
		}
		for _, k := range st.cfg.keys {
			i := m.find(k.ID)
			v, found, err := st.d.Get(k)
			if err != nil || found != (i >= 0) || (found && valOf(v) != m.e[i].v) {
				bad("Get(%v)=%v,%v,%v model idx %d", k, v, found, err, i)
			}
			gv, err := st.method("get", k, val(-1))
			if err != nil || (i >= 0 && valOf(gv) != m.e[i].v) || (i < 0 && valOf(gv) != -1) {
				bad("get(%v,-1)=%v,%v", k, gv, err)
			}
			iv, err := st.call("d_get", r, k)
			if (err == nil) != (i >= 0) || (i >= 0 && valOf(iv) != m.e[i].v) {
				bad("d[%v]=%v,%v model idx %d", k, iv, err, i)
			}
			inv, err := st.call("d_in", r, k)
			if err != nil || bool(inv.(starlark.Bool)) != (i >= 0) {
				bad("%v in d = %v,%v", k, inv, err)
			}
		}
		if st.d.Truth() != starlark.Bool(len(m.e) > 0) {
			bad("Truth")
		}
	}
	return strings.Join(errs, "; ")
}

// ---------------------------------------------------------------------------
// operation alphabets

func expectErr(err error, wantErr bool, what string) string {
	if (err != nil) != wantErr {
		return fmt.Sprintf("%s: err=%v, model expects error=%v", what, err, wantErr)
	}
	return ""
}

// operand builders: a fresh "other" dict / set / list from a key-id list.
func otherDict(keys []K, ids []int, v int) *starlark.Dict {
	d := new(starlark.Dict)
	for _, id := range ids {
		d.SetKey(keys[id], val(v))
	}
	return d
}
func otherSet(keys []K, ids []int) *starlark.Set {
	s := new(starlark.Set)
	for _, id := range ids {
		s.Insert(keys[id])
	}
	return s
}

// otherList is the operand as a list with repeats: the first element twice in
// a row and once more at the end (a set operand cannot repeat; an iterable can,
// and only first occurrences count).
func otherList(keys []K, ids []int) *starlark.List {
	var e []starlark.Value
	for i, id := range ids {
		e = append(e, keys[id])
		if i == 0 {
			e = append(e, keys[id])
		}
	}
	if len(ids) > 0 {
		e = append(e, keys[ids[0]])
	}
	return starlark.NewList(e)
}

func dictOpsFor(keys []K, others [][]int) []op {
	var ops []op
	for _, k := range keys {
		k := k
		for _, v := range []int{1, 2} {
			v := v
			ops = append(ops, op{fmt.Sprintf("d[%v]=%d", k, v), func(st *state) string {
				_, err := st.call("d_set", st.d, k, val(v))
				st.m.set(k.ID, v)
				return expectErr(err, false, "d[k]=v")
			}})
		}
		ops = append(ops, op{fmt.Sprintf("SetKey(%v,3)", k), func(st *state) string {
			err := st.d.SetKey(k, val(3))
			st.m.set(k.ID, 3)
			return expectErr(err, false, "SetKey")
		}})
		ops = append(ops, op{fmt.Sprintf("setdefault(%v,4)", k), func(st *state) string {
			r, err := st.method("setdefault", k, val(4))
			want := 4
			if i := st.m.find(k.ID); i >= 0 {
				want = st.m.e[i].v
			} else {
				st.m.set(k.ID, 4)
			}
			if err != nil || valOf(r) != want {
				return fmt.Sprintf("setdefault returned %v,%v want %d", r, err, want)
			}
			return ""
		}})
		ops = append(ops, op{fmt.Sprintf("pop(%v)", k), func(st *state) string {
			r, err := st.method("pop", k)
			v, found := st.m.del(k.ID)
			if (err == nil) != found || (found && valOf(r) != v) {
				return fmt.Sprintf("pop returned %v,%v model %v,%v", r, err, v, found)
			}
			return ""
		}})
		ops = append(ops, op{fmt.Sprintf("pop(%v,9)", k), func(st *state) string {
			r, err := st.method("pop", k, val(9))
			v, found := st.m.del(k.ID)
			if !found {
				v = 9
			}
			if err != nil || valOf(r) != v {
				return fmt.Sprintf("pop(k,9) returned %v,%v model %v", r, err, v)
			}
			return ""
		}})
		ops = append(ops, op{fmt.Sprintf("Delete(%v)", k), func(st *state) string {
			r, f, err := st.d.Delete(k)
			v, found := st.m.del(k.ID)
			if err != nil || f != found || (found && valOf(r) != v) {
				return fmt.Sprintf("Delete returned %v,%v,%v model %v,%v", r, f, err, v, found)
			}
			return ""
		}})
	}
	ops = append(ops, op{"popitem()", func(st *state) string {
		r, err := st.method("popitem")
		if len(st.m.e) == 0 {
			return expectErr(err, true, "popitem on empty")
		}
		first := st.m.e[0]
		st.m.del(first.k)
		t, ok := r.(starlark.Tuple)
		if err != nil || !ok || len(t) != 2 || keyName(t[0]) != fmt.Sprintf("k%d", first.k) || valOf(t[1]) != first.v {
			return fmt.Sprintf("popitem returned %v,%v model (k%d,%d)", r, err, first.k, first.v)
		}
		return ""
	}})
	ops = append(ops, op{"clear()", func(st *state) string {
		_, err := st.method("clear")
		st.m.e = nil
		return expectErr(err, false, "clear")
	}})
	ops = append(ops, op{"Clear()", func(st *state) string {
		err := st.d.Clear()
		st.m.e = nil
		return expectErr(err, false, "Clear")
	}})
	// the collection as its own operand: nothing changes
	ops = append(ops, op{"update(self)", func(st *state) string {
		_, err := st.method("update", st.d)
		return expectErr(err, false, "d.update(d)")
	}})
	ops = append(ops, op{"d|=self", func(st *state) string {
		r, err := st.call("d_ior", st.d, st.d)
		if err != nil {
			return "d |= d: " + err.Error()
		}
		if nd, ok := r.(*starlark.Dict); ok {
			st.d = nd
		}
		return ""
	}})
	for _, ids := range others {
		ids := ids
		ops = append(ops, op{fmt.Sprintf("update(dict%v=5)", ids), func(st *state) string {
			_, err := st.method("update", otherDict(keys, ids, 5))
			for _, id := range ids {
				st.m.set(id, 5)
			}
			return expectErr(err, false, "update")
		}})
		ops = append(ops, op{fmt.Sprintf("update(pairs%v=6)", ids), func(st *state) string {
			var pairs []starlark.Value
			for _, id := range ids {
				pairs = append(pairs, starlark.Tuple{keys[id], val(6)})
			}
			_, err := st.method("update", starlark.NewList(pairs))
			for _, id := range ids {
				st.m.set(id, 6)
			}
			return expectErr(err, false, "update(pairs)")
		}})
		ops = append(ops, op{fmt.Sprintf("d=d|dict%v=7", ids), func(st *state) string {
			r, err := st.call("d_or", st.d, otherDict(keys, ids, 7))
			for _, id := range ids {
				st.m.set(id, 7)
			}
			if err != nil {
				return "d|o: " + err.Error()
			}
			nd, ok := r.(*starlark.Dict)
			if !ok || nd == st.d {
				return "d|o did not return a new dict"
			}
			st.d = nd
			return ""
		}})
		ops = append(ops, op{fmt.Sprintf("d=dict%v=7|d", ids), func(st *state) string {
			r, err := st.call("d_or", otherDict(keys, ids, 7), st.d)
			nm := &model{}
			for _, id := range ids {
				nm.set(id, 7)
			}
			for _, e := range st.m.e {
				nm.set(e.k, e.v)
			}
			st.m = nm
			if err != nil {
				return "o|d: " + err.Error()
			}
			nd, ok := r.(*starlark.Dict)
			if !ok {
				return "o|d did not return a dict"
			}
			st.d = nd
			return ""
		}})
		ops = append(ops, op{fmt.Sprintf("d|=dict%v=8", ids), func(st *state) string {
			r, err := st.call("d_ior", st.d, otherDict(keys, ids, 8))
			for _, id := range ids {
				st.m.set(id, 8)
			}
			if err != nil {
				return "d|=o: " + err.Error()
			}
			if r != starlark.Value(st.d) {
				return "d|=o did not update in place"
			}
			return ""
		}})
	}
	return ops
}

func setOpsFor(keys []K, others [][]int) []op {
	var ops []op
	for _, k := range keys {
		k := k
		ops = append(ops, op{fmt.Sprintf("add(%v)", k), func(st *state) string {
			_, err := st.method("add", k)
			st.m.set(k.ID, 0)
			return expectErr(err, false, "add")
		}})
		ops = append(ops, op{fmt.Sprintf("Insert(%v)", k), func(st *state) string {
			err := st.s.Insert(k)
			st.m.set(k.ID, 0)
			return expectErr(err, false, "Insert")
		}})
		ops = append(ops, op{fmt.Sprintf("discard(%v)", k), func(st *state) string {
			_, err := st.method("discard", k)
			st.m.del(k.ID)
			return expectErr(err, false, "discard")
		}})
		ops = append(ops, op{fmt.Sprintf("remove(%v)", k), func(st *state) string {
			_, err := st.method("remove", k)
			_, found := st.m.del(k.ID)
			return expectErr(err, !found, "remove")
		}})
		ops = append(ops, op{fmt.Sprintf("Delete(%v)", k), func(st *state) string {
			f, err := st.s.Delete(k)
			_, found := st.m.del(k.ID)
			if err != nil || f != found {
				return fmt.Sprintf("Delete returned %v,%v model %v", f, err, found)
			}
			return ""
		}})
	}
	ops = append(ops, op{"pop()", func(st *state) string {
		r, err := st.method("pop")
		if len(st.m.e) == 0 {
			return expectErr(err, true, "pop on empty")
		}
		first := st.m.e[0]
		st.m.del(first.k)
		if err != nil || keyName(r) != fmt.Sprintf("k%d", first.k) {
			return fmt.Sprintf("pop returned %v,%v model k%d", r, err, first.k)
		}
		return ""
	}})
	ops = append(ops, op{"clear()", func(st *state) string {
		_, err := st.method("clear")
		st.m.e = nil
		return expectErr(err, false, "clear")
	}})
	ops = append(ops, op{"Clear()", func(st *state) string {
		err := st.s.Clear()
		st.m.e = nil
		return expectErr(err, false, "Clear")
	}})

	inIDs := func(ids []int, k int) bool {
		for _, x := range ids {
			if x == k {
				return true
			}
		}
		return false
	}
	// model results
	union := func(m *model, ids []int) *model {
		n := m.clone()
		for _, id := range ids {
			n.set(id, 0)
		}
		return n
	}
	inter := func(m *model, ids []int) *model { // left operand's order
		n := &model{}
		for _, e := range m.e {
			if inIDs(ids, e.k) {
				n.set(e.k, 0)
			}
		}
		return n
	}
	diff := func(m *model, ids []int) *model {
		n := &model{}
		for _, e := range m.e {
			if !inIDs(ids, e.k) {
				n.set(e.k, 0)
			}
		}
		return n
	}
	symdiff := func(m *model, ids []int) *model {
		n := diff(m, ids)
		for _, id := range ids {
			if m.find(id) < 0 {
				n.set(id, 0)
			}
		}
		return n
	}
	type derived struct {
		name    string
		method  string // method name, or ""
		helper  string // helper name (operator form), or ""
		inplace bool
		f       func(*model, []int) *model
	}
	ds := []derived{
		{"union", "union", "", false, union},
		{"intersection", "intersection", "", false, inter},
		{"difference", "difference", "", false, diff},
		{"symmetric_difference", "symmetric_difference", "", false, symdiff},
		{"|", "", "s_or", false, union},
		{"&", "", "s_and", false, inter},
		{"-", "", "s_sub", false, diff},
		{"^", "", "s_xor", false, symdiff},
		{"|=", "", "s_ior", true, union},
		{"&=", "", "s_iand", true, inter},
		{"-=", "", "s_isub", true, diff},
		{"^=", "", "s_ixor", true, symdiff},
	}
	for _, ids := range others {
		ids := ids
		ops = append(ops, op{fmt.Sprintf("update(list%v)", ids), func(st *state) string {
			_, err := st.method("update", otherList(keys, ids))
			st.m = union(st.m, ids)
			return expectErr(err, false, "update")
		}})
		for _, d := range ds {
			d := d
			ops = append(ops, op{fmt.Sprintf("s=s %s set%v", d.name, ids), func(st *state) string {
				var r starlark.Value
				var err error
				old := st.s
				if d.method != "" {
					// methods accept any iterable: alternate between list and set operands
					r, err = st.method(d.method, otherList(keys, ids))
				} else {
					r, err = st.call(d.helper, st.s, otherSet(keys, ids))
				}
				st.m = d.f(st.m, ids)
				if err != nil {
					return d.name + ": " + err.Error()
				}
				ns, ok := r.(*starlark.Set)
				if !ok {
					return d.name + " did not return a set"
				}
				if !d.inplace && ns == old {
					return d.name + " returned its receiver"
				}
				st.s = ns
				return ""
			}})
		}
		// right-operand position: result order must follow the *other* (left) operand
		ops = append(ops, op{fmt.Sprintf("s=set%v | s", ids), func(st *state) string {
			r, err := st.call("s_or", otherSet(keys, ids), st.s)
			nm := &model{}
			for _, id := range ids {
				nm.set(id, 0)
			}
			for _, e := range st.m.e {
				nm.set(e.k, 0)
			}
			st.m = nm
			if err != nil {
				return "o|s: " + err.Error()
			}
			st.s = r.(*starlark.Set)
			return ""
		}})
		ops = append(ops, op{fmt.Sprintf("s=set%v & s", ids), func(st *state) string {
			r, err := st.call("s_and", otherSet(keys, ids), st.s)
			nm := &model{}
			for _, id := range ids {
				if st.m.find(id) >= 0 {
					nm.set(id, 0)
				}
			}
			st.m = nm
			if err != nil {
				return "o&s: " + err.Error()
			}
			st.s = r.(*starlark.Set)
			return ""
		}})
		for _, rel := range []string{"issubset", "issuperset"} {
			rel := rel
			ops = append(ops, op{fmt.Sprintf("%s(list%v)", rel, ids), func(st *state) string {
				r, err := st.method(rel, otherList(keys, ids))
				want := true
				if rel == "issubset" {
					for _, e := range st.m.e {
						if !inIDs(ids, e.k) {
							want = false
						}
					}
				} else {
					for _, id := range ids {
						if st.m.find(id) < 0 {
							want = false
						}
					}
				}
				if err != nil || r != starlark.Value(starlark.Bool(want)) {
					return fmt.Sprintf("%s = %v,%v model %v", rel, r, err, want)
				}
				return ""
			}})
		}
	}
	return ops
}

// symmetric alphabet for configuration B: operations addressed by order position.
func symOps(keys []K, set bool) []op {
	var ops []op
	setv := func(st *state, k K, v int) error {
		st.m.set(k.ID, v)
		if set {
			return st.s.Insert(k)
		}
		return st.d.SetKey(k, val(v))
	}
	delk := func(st *state, k K) error {
		st.m.del(k.ID)
		if set {
			_, err := st.s.Delete(k)
			return err
		}
		_, _, err := st.d.Delete(k)
		return err
	}
	// one insert-fresh operation per hash class (keys of one class share their hash and are interchangeable)
	var classes []uint32
	for _, k := range keys {
		known := false
		for _, h := range classes {
			known = known || h == k.H
		}
		if !known {
			classes = append(classes, k.H)
		}
	}
	for _, h := range classes {
		h := h
		name := "insert-fresh"
		if len(classes) > 1 {
			name = fmt.Sprintf("insert-fresh(hash %#x)", h)
		}
		ops = append(ops, op{name, func(st *state) string {
			for _, k := range keys {
				if k.H == h && st.m.find(k.ID) < 0 {
					return expectErr(setv(st, k, 1), false, "insert")
				}
			}
			return "" // class exhausted: no-op
		}})
	}
	pos := func(st *state, which string) (K, bool) {
		n := len(st.m.e)
		if n == 0 {
			return K{}, false
		}
		var i int
		switch which {
		case "first":
			i = 0
		case "mid":
			i = n / 2
		case "last":
			i = n - 1
		}
		return keys[st.m.e[i].k], true
	}
	for _, w := range []string{"first", "mid", "last"} {
		w := w
		ops = append(ops, op{"update-" + w, func(st *state) string {
			if k, ok := pos(st, w); ok {
				return expectErr(setv(st, k, 2), false, "update")
			}
			return ""
		}})
		ops = append(ops, op{"delete-" + w, func(st *state) string {
			if k, ok := pos(st, w); ok {
				return expectErr(delk(st, k), false, "delete")
			}
			return ""
		}})
	}
	ops = append(ops, op{"popfirst", func(st *state) string {
		name := "popitem"
		if set {
			name = "pop"
		}
		_, err := st.method(name)
		if len(st.m.e) == 0 {
			return expectErr(err, true, name)
		}
		st.m.del(st.m.e[0].k)
		return expectErr(err, false, name)
	}})
	ops = append(ops, op{"clear", func(st *state) string {
		_, err := st.method("clear")
		st.m.e = nil
		return expectErr(err, false, "clear")
	}})
	return ops
}

// opsNamed keeps the operations whose name starts with one of the prefixes.
func opsNamed(all []op, prefixes ...string) []op {
	var out []op
	for _, o := range all {
		for _, p := range prefixes {
			if strings.HasPrefix(o.name, p) {
				out = append(out, o)
				break
			}
		}
	}
	return out
}

func configs(tier string) []*config {
	thorough := tier == "thorough"
	// A: 5 keys: 3 share one hash, one hashes to 0 (stored as 1), one hashes to 1.
	keysA := []K{{0, 7}, {1, 7}, {2, 7}, {3, 0}, {4, 1}}
	othersA := [][]int{{1, 3}, {4, 0, 2}}
	// C: pre-sized table with 4 buckets.
	keysC := []K{{0, 4}, {1, 4}, {2, 8}, {3, 5}, {4, 0}}
	othersC := [][]int{{2, 0}, {4, 3, 1}}
	if thorough {
		keysC = append(keysC, K{5, 12})
		othersC = [][]int{{2, 0}, {5, 3, 1}}
	}
	var keysB []K
	for i := 0; i < 14; i++ {
		keysB = append(keysB, K{i, 0x50})
	}
	depthB := 17
	if thorough {
		depthB = 24
	}
	// D/E: chains of two and three full buckets as the starting state (22 and 30 interchangeable keys)
	var keysD, keysE []K
	for i := 0; i < 30; i++ {
		if i < 22 {
			keysD = append(keysD, K{i, 0x50})
		}
		keysE = append(keysE, K{i, 0x50})
	}
	depthD, depthE := 10, 8
	if thorough {
		depthD, depthE = 13, 11
	}
	// G: two hash classes that share a bucket while the table has one or two buckets and part when it has four
	var keysG []K
	for i := 0; i < 20; i++ {
		keysG = append(keysG, K{i, []uint32{0x50, 0x52}[i%2]})
	}
	// (growth happens at 9 and at 14 entries; the alphabet is insert-heavy so that depth 16 is affordable)
	depthG := 15
	if thorough {
		depthG = 18
	}
	cs := []*config{
		{name: "A-dict", keys: keysA, ops: dictOpsFor(keysA, othersA)},
		{name: "A-set", set: true, keys: keysA, ops: setOpsFor(keysA, othersA)},
		{name: "B-dict-sym", keys: keysB, sym: true, ops: symOps(keysB, false), maxDepth: depthB},
		{name: "B-set-sym", set: true, keys: keysB, sym: true, ops: symOps(keysB, true), maxDepth: depthB},
		{name: "C-dict-presized16", keys: keysC, presize: 16, ops: dictOpsFor(keysC, othersC)},
		{name: "C-set-presized16", set: true, keys: keysC, presize: 16, ops: setOpsFor(keysC, othersC)},
		{name: "D-dict-sym-from-16-in-one-chain", keys: keysD, sym: true, prefill: 16, ops: symOps(keysD, false), maxDepth: depthD},
		{name: "D-set-sym-from-16-in-one-chain", set: true, keys: keysD, sym: true, prefill: 16, ops: symOps(keysD, true), maxDepth: depthD},
		{name: "E-dict-sym-from-24-in-one-chain", keys: keysE, sym: true, prefill: 24, ops: symOps(keysE, false), maxDepth: depthE},
		{name: "G-dict-sym-two-hash-classes", keys: keysG, sym: true, ops: opsNamed(symOps(keysG, false), "insert-fresh", "delete-last", "update-first"), maxDepth: depthG},
	}
	if thorough {
		// the values as part of the state key (the table never inspects them; a defect that
		// moved or dropped a value would): depth-bounded, the fixpoint search above ignores them
		cs = append(cs, &config{name: "A-dict-with-values-in-the-state", keys: keysA, ops: dictOpsFor(keysA, othersA), vals: true, maxDepth: 6})
	}
	return cs
}

// ---------------------------------------------------------------------------
// search

type violCase struct {
	Tier   string   `json:"tier"`
	Config string   `json:"config"`
	Path   []int    `json:"path"`
	Ops    []string `json:"ops"`
}

// replayPath builds a fresh instance and applies path; it returns the state
// and the first disagreement (with the index of the op that showed it).
func replayPath(cfg *config, th *starlark.Thread, path []uint16, checkAll bool) (st *state, bad string, at int) {
	st = newState(cfg, th)
	defer func() {
		if r := recover(); r != nil {
			bad = fmt.Sprintf("panic: %v", r)
			at = len(path) - 1
		}
	}()
	for i, o := range path {
		if msg := cfg.ops[o].apply(st); msg != "" {
			return st, msg, i
		}
		if checkAll || i == len(path)-1 {
			// A cyclic order list would make every iteration below (and any
			// Starlark loop over the collection) run for ever: report it as
			// what it is instead of hanging.
			if lay := st.rawLayout(); strings.Contains(lay, "!cycle") {
				return st, "the insertion-order list is cyclic, so iterating the collection never terminates: " + lay, i
			}
			if msg := st.observe(); msg != "" {
				return st, msg, i
			}
		}
	}
	return st, "", -1
}

type succ struct {
	parent  int
	opi     uint16
	key     [16]byte // 128-bit digest of the canonical layout key (the key itself can be kilobytes)
	bad     string
	anomaly bool
}

func digest(k string) [16]byte {
	h := sha256.Sum256([]byte(k))
	var d [16]byte
	copy(d[:], h[:16])
	return d
}

// maxStatesPerConfig bounds the memory of one search (about 100 bytes per
// state: digest, map overhead, path); a search that reaches it is reported as
// cut at that depth, never as exhaustive.
const maxStatesPerConfig = 40_000_000

// chunk: parents whose successors are computed (in parallel) and merged (in
// order) together; bounds the memory held for one depth.
const chunk = 1 << 15

func searchConfig(c *fw.Ctx, cfg *config, total *fw.Stats, until time.Time) {
	nw := runtime.NumCPU()
	expired := func() bool { return c.Expired() || time.Now().After(until) }
	seen := map[[16]byte]struct{}{}
	st0 := newState(cfg, &starlark.Thread{Name: "c12"})
	seen[digest(st0.key())] = struct{}{}
	if msg := st0.observe(); msg != "" {
		total.Violate(cfg.name+":<init>", msg, violCase{Config: cfg.name})
	}
	frontier := [][]uint16{{}}
	var states, transitions int64 = 1, 0
	depth := 0
	fixpoint := false
	nviol := 0
	cutNote := ""
	for len(frontier) > 0 {
		if cfg.maxDepth > 0 && depth >= cfg.maxDepth {
			break
		}
		if expired() {
			cutNote = fmt.Sprintf("%s:depth%d(frontier %d)", cfg.name, depth+1, len(frontier))
			break
		}
		var next [][]uint16
		for lo := 0; lo < len(frontier) && cutNote == ""; lo += chunk {
			hi := min(lo+chunk, len(frontier))
			if lo > 0 && expired() {
				cutNote = fmt.Sprintf("%s:depth%d(after %d of %d states of depth %d)", cfg.name, depth+1, lo, len(frontier), depth)
				break
			}
			if states > maxStatesPerConfig {
				cutNote = fmt.Sprintf("%s:depth%d(state cap %d reached after %d of %d states of depth %d)", cfg.name, depth+1, maxStatesPerConfig, lo, len(frontier), depth)
				break
			}
			part := frontier[lo:hi]
			results := make([][]succ, nw)
			var wg sync.WaitGroup
			for w := 0; w < nw; w++ {
				wg.Add(1)
				go func(w int) {
					defer wg.Done()
					th := &starlark.Thread{Name: fmt.Sprintf("c12-%d", w)}
					var out []succ
					path := make([]uint16, 0, 64)
					for pi := w; pi < len(part); pi += nw {
						base := part[pi]
						for oi := range cfg.ops {
							path = append(append(path[:0], base...), uint16(oi))
							st, bad, _ := replayPath(cfg, th, path, false)
							s := succ{parent: pi, opi: uint16(oi), bad: bad}
							if bad == "" {
								// A back-link or tail pointer that disagrees with the forward list
								// ("!bad..." in the layout) is not observable by itself; such a state is
								// kept as a distinct state and explored, so that the first operation
								// whose result it corrupts is reported with its full history.
								k := st.key()
								s.key = digest(k)
								s.anomaly = strings.Contains(k, "!bad")
							}
							out = append(out, s)
						}
					}
					results[w] = out
				}(w)
			}
			wg.Wait()
			var all []succ
			for _, r := range results {
				all = append(all, r...)
			}
			sort.Slice(all, func(i, j int) bool {
				if all[i].parent != all[j].parent {
					return all[i].parent < all[j].parent
				}
				return all[i].opi < all[j].opi
			})
			for _, s := range all {
				transitions++
				if s.bad != "" {
					if nviol < 20 {
						path := append(append([]uint16{}, part[s.parent]...), s.opi)
						vc := violCase{Tier: c.Tier, Config: cfg.name}
						for _, o := range path {
							vc.Path = append(vc.Path, int(o))
							vc.Ops = append(vc.Ops, cfg.ops[o].name)
						}
						total.Violate(cfg.name+":"+strings.Join(vc.Ops, ";"), s.bad, vc)
					}
					nviol++
					continue // do not explore beyond a violating state
				}
				if _, ok := seen[s.key]; !ok {
					seen[s.key] = struct{}{}
					states++
					if s.anomaly {
						total.Count(cfg.name+".states_with_inconsistent_back_links(explored further)", 1)
					}
					next = append(next, append(append(make([]uint16, 0, len(part[s.parent])+1), part[s.parent]...), s.opi))
				}
			}
		}
		if cutNote != "" {
			break
		}
		depth++
		frontier = next
		if len(frontier) == 0 {
			fixpoint = true
		}
	}
	if cutNote != "" {
		total.Cut = append(total.Cut, cutNote)
	}
	total.States += states
	total.Transitions += transitions
	total.Evals += transitions
	total.Nontrivial += states - 1
	total.Count(cfg.name+".states", states)
	total.Count(cfg.name+".transitions", transitions)
	total.Count(cfg.name+".depth", int64(depth))
	total.Count(cfg.name+".alphabet", int64(len(cfg.ops)))
	if fixpoint {
		total.Levels = append(total.Levels, fmt.Sprintf("%s:fixpoint@depth%d(all histories of any length)", cfg.name, depth))
	} else {
		total.Levels = append(total.Levels, fmt.Sprintf("%s:depth<=%d", cfg.name, depth))
	}
	if len(frontier) > 0 {
		p := frontier[len(frontier)/2]
		var names []string
		for _, o := range p {
			names = append(names, cfg.ops[o].name)
		}
		st, _, _ := replayPath(cfg, &starlark.Thread{}, p, false)
		total.Sample(map[string]any{"config": cfg.name, "history": names, "layout": st.key(), "model": st.m.String()})
	} else {
		total.Sample(map[string]any{"config": cfg.name, "note": "fixpoint reached", "states": states})
	}
	total.Outcome(fmt.Sprintf("%s:states=%d", cfg.name, states))
}

// longHistories is the supplementary sample of the property's "long random
// histories" clause: seeded pseudo-random sequences of 10^4 operations over
// thousands of live keys whose hashes are adversarial (few distinct hashes, all
// congruent modulo small table sizes), compared with the model after every
// operation (cheap checks) and in full every 500 operations. It is reported
// as sampled_extra and never contributes to `exhaustive`.
func longHistories(c *fw.Ctx, total *fw.Stats) {
	seed := uint64(c.Seed)*0x9E3779B97F4A7C15 + 12345
	next := func() uint64 {
		seed ^= seed << 13
		seed ^= seed >> 7
		seed ^= seed << 17
		return seed
	}
	for _, set := range []bool{false, true} {
		for dist := 0; dist < 3; dist++ {
			const nkeys = 3000
			keys := make([]K, nkeys)
			for i := range keys {
				var h uint32
				switch dist {
				case 0: // 7 distinct hashes
					h = uint32(i%7) * 1024
				case 1: // all congruent mod 1024, distinct above
					h = uint32(i) << 10
				case 2: // identical
					h = 0xdead
				}
				keys[i] = K{i, h}
			}
			cfg := &config{name: fmt.Sprintf("long-%v-dist%d", set, dist), set: set, keys: keys}
			st := newState(cfg, &starlark.Thread{Name: "c12-long"})
			bad := ""
			nops := 10000
			if dist == 2 {
				nops = 3000 // a single chain: every operation is linear
			}
			for op := 0; op < nops && bad == ""; op++ {
				r := next()
				k := keys[int(r>>8)%nkeys]
				switch r % 8 {
				case 0, 1, 2, 3: // insert / update
					st.m.set(k.ID, int(r>>40)%5)
					var err error
					if set {
						st.m.e[st.m.find(k.ID)].v = 0
						err = st.s.Insert(k)
					} else {
						err = st.d.SetKey(k, val(st.m.e[st.m.find(k.ID)].v))
					}
					if err != nil {
						bad = err.Error()
					}
				case 4, 5: // delete
					_, found := st.m.del(k.ID)
					var f bool
					if set {
						f, _ = st.s.Delete(k)
					} else {
						_, f, _ = st.d.Delete(k)
					}
					if f != found {
						bad = fmt.Sprintf("op %d: Delete(%v) found=%v model=%v", op, k, f, found)
					}
				case 6: // pop first
					if len(st.m.e) > 0 && r%64 == 6 {
						name := "popitem"
						if set {
							name = "pop"
						}
						if _, err := st.method(name); err != nil {
							bad = err.Error()
						}
						st.m.del(st.m.e[0].k)
					}
				case 7:
					if r%4096 == 7 {
						st.method("clear")
						st.m.e = nil
					}
				}
				if n := starlark.Len(st.recv()); n != len(st.m.e) {
					bad = fmt.Sprintf("op %d: len %d model %d", op, n, len(st.m.e))
				}
				if op%500 == 499 && bad == "" {
					if got := keysToIDs(listElems(st.recv())); got != st.m.keyString() {
						bad = fmt.Sprintf("op %d: iteration order differs from the model", op)
					}
					for i := 0; i < nkeys; i += 37 {
						var has bool
						if set {
							has, _ = st.s.Has(keys[i])
						} else {
							_, has, _ = st.d.Get(keys[i])
						}
						if has != (st.m.find(i) >= 0) {
							bad = fmt.Sprintf("op %d: membership of k%d = %v, model %v", op, i, has, !has)
						}
					}
				}
			}
			total.Count("sampled_extra_long_history_ops", int64(nops))
			if bad != "" {
				total.Violate(cfg.name+fmt.Sprintf(":seed=%d", c.Seed), "long random history: "+bad, violCase{Config: cfg.name})
			}
		}
	}
	total.Notes = append(total.Notes, "sampled_extra: 6 seeded pseudo-random histories (3000-10000 operations over 3000 keys with adversarial hash distributions), reported separately from the exhaustive searches")
}

func run(c *fw.Ctx) *fw.Stats {
	total := fw.NewStats()
	// every configuration gets an equal share of the time that is left when it starts
	// (a configuration that reaches its fixpoint early leaves its share to the later ones)
	// The depth-bounded configurations run first, then the ones searched to a
	// fixpoint, which take four shares each.
	cfgs := configs(c.Tier)
	sort.SliceStable(cfgs, func(i, j int) bool { return cfgs[i].maxDepth > 0 && cfgs[j].maxDepth == 0 })
	weight := func(cfg *config) int {
		if cfg.maxDepth == 0 {
			return 4
		}
		return 1
	}
	for i, cfg := range cfgs {
		rest := 0
		for _, x := range cfgs[i:] {
			rest += weight(x)
		}
		left := time.Until(c.Deadline)
		searchConfig(c, cfg, total, time.Now().Add(left*time.Duration(weight(cfg))/time.Duration(rest)))
	}
	if c.Thorough() {
		longHistories(c, total)
	}
	return total
}

func replay(c *fw.Ctx, raw json.RawMessage) []fw.Viol {
	var vc violCase
	if err := json.Unmarshal(raw, &vc); err != nil {
		fw.Fatal("bad case: %v", err)
	}
	if strings.HasPrefix(vc.Config, "long-") {
		st := fw.NewStats()
		longHistories(c, st)
		return st.Viols
	}
	if vc.Tier == "" {
		vc.Tier = "quick"
	}
	for _, cfg := range configs(vc.Tier) {
		if cfg.name != vc.Config {
			continue
		}
		var path []uint16
		for _, o := range vc.Path {
			path = append(path, uint16(o))
		}
		_, bad, _ := replayPath(cfg, &starlark.Thread{}, path, true)
		if bad != "" {
			return []fw.Viol{{Key: cfg.name + ":" + strings.Join(vc.Ops, ";"), What: bad}}
		}
	}
	return nil
}

func init() {
	fw.Register(&fw.Prop{
		ID:    "C12",
		Level: "model_checking",
		Rule: "explicit-state BFS over the real Dict/Set: successor = replay of the shortest history on a fresh object + one operation; configurations A (5 keys, 3 sharing one hash, fixpoint), B (14 interchangeable colliding keys, depth-bounded), C (pre-sized 4-bucket table, fixpoint), D/E (the search starts from 16 / 24 keys in one chain), G (two hash classes that part when the table has four buckets; insert-fresh per class, delete-last, update-first); " +
			"state key = private table layout (size, every chain slot with key+hash, order list) via the verif hook; " +
			"after every transition len/membership/lookup/keys/values/items/Iterate/Elements/Entries/for-loop order are compared with an ordered association list; " +
			"non-trivial = distinct layout states other than the initial one",
		Run:    run,
		Replay: replay,
		Assumptions: []string{
			"visited states are remembered by the 128-bit SHA-256 digest of their canonical layout key (two states with the same digest would be merged; none is expected among fewer than 2^40 states); a search is cut, and reported as not exhaustive, at 40 million states",
			"dict values are not part of the state key of the fixpoint searches (the table never inspects values); values are still compared on every explored transition; thorough adds a depth-6 search of configuration A whose state key includes them",
			"configuration B relies on key symmetry (keys are only observed through Hash and ==): states are canonicalised by renaming keys to their order position",
		},
		BudgetQuick: 300, BudgetThorough: 1200,
	})
}
