package c02

// Family 3: cyclic value graphs.
//
// Node kinds (one letter each):
//   L list            edges are elements
//   D dict            edges are values (string keys)
//   T tuple           (1, m) with m a list whose elements are the edges
//   S struct          struct(f = m) with m a list whose elements are the edges
//   C closure         the edges are its free variables (a self edge is a
//                     function that refers to itself)
//   M module          starlarkstruct.Module; edges are members
// Every graph is built afresh for every case by executing a generated Starlark
// program (so closures are real closures with real cells).

import (
	"fmt"
	"runtime/debug"
	"sort"
	"strings"

	sjson "go.starlark.net/lib/json"
	"go.starlark.net/starlark"
	"go.starlark.net/starlarkstruct"

	"verif/internal/fw"
)

const graphKinds = "LDTSCM"

func graphSource(kinds string, edges []int) string {
	var sb strings.Builder
	sb.WriteString("def build(extra = False):\n")
	n := len(kinds)
	for i := 0; i < n; i++ {
		switch kinds[i] {
		case 'L':
			fmt.Fprintf(&sb, "    n%d = []\n", i)
		case 'D':
			fmt.Fprintf(&sb, "    n%d = {}\n", i)
		case 'T':
			fmt.Fprintf(&sb, "    m%d = []\n    n%d = (1, m%d)\n", i, i, i)
		case 'S':
			fmt.Fprintf(&sb, "    m%d = []\n    n%d = struct(f = m%d)\n", i, i, i)
		case 'M':
			fmt.Fprintf(&sb, "    n%d = mkmodule(\"n%d\")\n", i, i)
		}
	}
	for i := 0; i < n; i++ {
		if kinds[i] != 'C' {
			continue
		}
		var ts []string
		for j := 0; j < n; j++ {
			if edges[i]&(1<<j) != 0 {
				ts = append(ts, fmt.Sprintf("n%d", j))
			}
		}
		if len(ts) == 0 {
			fmt.Fprintf(&sb, "    def n%d():\n        return None\n", i)
		} else {
			fmt.Fprintf(&sb, "    def n%d():\n        return (%s,)\n", i, strings.Join(ts, ", "))
		}
	}
	for i := 0; i < n; i++ {
		for j := 0; j < n; j++ {
			if edges[i]&(1<<j) == 0 {
				continue
			}
			switch kinds[i] {
			case 'L':
				fmt.Fprintf(&sb, "    n%d.append(n%d)\n", i, j)
			case 'D':
				fmt.Fprintf(&sb, "    n%d[\"k%d\"] = n%d\n", i, j, j)
			case 'T', 'S':
				fmt.Fprintf(&sb, "    m%d.append(n%d)\n", i, j)
			case 'M':
				fmt.Fprintf(&sb, "    setmember(n%d, \"k%d\", n%d)\n", i, j, j)
			}
		}
	}
	// extra: the same graph with one more element in its root, for comparisons
	// between values of different lengths
	switch kinds[0] {
	case 'L':
		sb.WriteString("    if extra:\n        n0.append(0)\n")
	case 'D':
		sb.WriteString("    if extra:\n        n0[\"extra\"] = 0\n")
	case 'T', 'S':
		sb.WriteString("    if extra:\n        m0.append(0)\n")
	}
	sb.WriteString("    return n0\n")
	return sb.String()
}

func reach(n int, edges []int) []int {
	// reach[i] = bitmask of nodes reachable from i by a path of length >= 1
	r := make([]int, n)
	copy(r, edges)
	for k := 0; k < n; k++ {
		for i := 0; i < n; i++ {
			for j := 0; j < n; j++ {
				if r[i]&(1<<j) != 0 {
					r[i] |= r[j]
				}
			}
		}
	}
	return r
}

// cycleKinds lists the distinct kinds of the nodes that lie on a cycle.
func cycleKinds(kinds string, edges []int) string {
	n := len(kinds)
	if n == 0 || len(edges) != n {
		return "?"
	}
	r := reach(n, edges)
	var ks []string
	seen := map[byte]bool{}
	for i := 0; i < n; i++ {
		if r[i]&(1<<i) != 0 && !seen[kinds[i]] {
			seen[kinds[i]] = true
			ks = append(ks, string(kinds[i]))
		}
	}
	sort.Strings(ks)
	if len(ks) == 0 {
		return "-"
	}
	return strings.Join(ks, "")
}

const graphOpsSrc = `
def op_str(r, q): return str(r)
def op_repr(r, q): return repr(r)
def op_eq(r, q): return (r == q, r == r, r != q)
def op_lt(r, q): return r < q
def op_hash(r, q): return hash(r)
def op_json(r, q): return json.encode(r)
def op_json_indent(r, q): return json.encode_indent(r)
def op_sorted(r, q): return sorted([r, q, r])
def op_in(r, q): return (r in [q], r in (q, 1))
def op_print(r, q): print(r)
def op_percent(r, q): return ("%s" % (r,), "%r" % (r,), "%s %s" % (q, r))
def op_format(r, q): return ("{}".format(r), "{!r}".format(r), "{a}".format(a = r))
def op_dictkey(r, q): return {r: 1}
def op_dictlookup(r, q): return r in {1: 2}
def op_setelem(r, q): return set([r, q])
def op_fail(r, q): fail(r, q)
def op_list(r, q): return list(r)
def op_call(r, q): return r()
def op_add(r, q): return r + q
def op_dir(r, q): return (dir(r), type(r), bool(r))
def op_minmax(r, q): return max(r, q)
def op_lt_other(r, q): return (r < q, q < r)
def op_cmp_other(r, q): return (r <= q, r >= q, r == q, r != q)
def op_sorted_other(r, q): return sorted([r, q, r, q])
def op_minmax_other(r, q): return (min(r, q), max(q, r))
def op_in_other(r, q): return (r in [q], q in (r, 1))
`

// Operations executed on the Go side.
var goOps = []string{"go:Freeze", "go:String", "go:Hash", "go:modfreeze"}

type graphEnv struct {
	ops      starlark.StringDict
	opNames  []string
	mkmodule *starlark.Builtin
	setmem   *starlark.Builtin
}

func (w *wk) graphEnv() *graphEnv {
	ge := &graphEnv{}
	ge.mkmodule = starlark.NewBuiltin("mkmodule", func(_ *starlark.Thread, b *starlark.Builtin, args starlark.Tuple, kwargs []starlark.Tuple) (starlark.Value, error) {
		var name string
		if err := starlark.UnpackPositionalArgs(b.Name(), args, kwargs, 1, &name); err != nil {
			return nil, err
		}
		return &starlarkstruct.Module{Name: name, Members: starlark.StringDict{}}, nil
	})
	ge.setmem = starlark.NewBuiltin("setmember", func(_ *starlark.Thread, b *starlark.Builtin, args starlark.Tuple, kwargs []starlark.Tuple) (starlark.Value, error) {
		var m *starlarkstruct.Module
		var name string
		var v starlark.Value
		if err := starlark.UnpackPositionalArgs(b.Name(), args, kwargs, 3, &m, &name, &v); err != nil {
			return nil, err
		}
		m.Members[name] = v
		return starlark.None, nil
	})
	th := &starlark.Thread{Name: "c02-graphops", Print: discardPrint}
	g, err := starlark.ExecFileOptions(allOn, th, "c02ops.star", graphOpsSrc, starlark.StringDict{"json": sjson.Module})
	if err != nil {
		panic("graph ops: " + err.Error())
	}
	ge.ops = g
	for n := range g {
		ge.opNames = append(ge.opNames, n)
	}
	sort.Strings(ge.opNames)
	ge.opNames = append(ge.opNames, goOps...)
	// the same operations on the graph after it has been frozen (a cycle is made
	// while the values are mutable; most values a program meets are frozen)
	for _, n := range append([]string(nil), ge.opNames...) {
		switch n {
		case "op_call", "op_add", "op_dir", "op_list", "op_dictlookup", "go:Freeze", "go:modfreeze":
			continue
		}
		if strings.HasPrefix(n, "go:") {
			ge.opNames = append(ge.opNames, "frozen:"+n)
		} else {
			ge.opNames = append(ge.opNames, "op_frozen:"+strings.TrimPrefix(n, "op_"))
		}
	}
	return ge
}

func (ge *graphEnv) predeclared(e *env) starlark.StringDict {
	return starlark.StringDict{"struct": e.structB, "mkmodule": ge.mkmodule, "setmember": ge.setmem}
}

// compileGraph returns the graph's build function.
func (ge *graphEnv) compileGraph(e *env, src string) (starlark.Value, error) {
	th := &starlark.Thread{Name: "c02-graph", Print: discardPrint}
	g, err := starlark.ExecFileOptions(allOn, th, "c02graph.star", src, ge.predeclared(e))
	if err != nil {
		return nil, err
	}
	return g["build"], nil
}

func (w *wk) graphLevel(n int) {
	ge := w.graphEnv()
	debug.SetMaxStack(smallStack)
	nk := len(graphKinds)
	total := 1
	for i := 0; i < n; i++ {
		total *= nk
	}
	kinds := make([]byte, n)
	edges := make([]int, n)
	masks := 1 << n
	owners := make([]uint32, len(ge.opNames))
	for i := range ge.opNames {
		owners[i] = uint32(i) // round-robin over the shards
	}
	for kc := 0; kc < total; kc++ {
		x := kc
		for i := 0; i < n; i++ {
			kinds[i] = graphKinds[x%nk]
			x /= nk
		}
		ks := string(kinds)
		nedge := 1
		for i := 0; i < n; i++ {
			nedge *= masks
		}
		for ec := 0; ec < nedge; ec++ {
			y := ec
			for i := 0; i < n; i++ {
				edges[i] = y % masks
				y /= masks
			}
			// every node must be reachable from the root (node 0)
			r := reach(n, edges)
			if (r[0]|1)&(masks-1) != masks-1 {
				continue
			}
			var build starlark.Value
			for oi, op := range ge.opNames {
				// all cases of one operation belong to one shard
				if !w.take(owners[oi]) {
					continue
				}
				cs := &Case{F: "graph", Kinds: ks, Edges: append([]int{}, edges...), Op: strings.TrimPrefix(op, "op_")}
				if !w.begin(cs) {
					continue
				}
				if build == nil {
					b, err := ge.compileGraph(w.e, graphSource(ks, edges))
					if err != nil {
						fw.Fatal("graph program does not compile: %v\n%s", err, graphSource(ks, edges))
					}
					build = b
				}
				w.runGraphOp(ge, cs, build)
				w.end()
			}
		}
	}
}

func (w *wk) execGraph(cs *Case) {
	debug.SetMaxStack(smallStack)
	ge := w.graphEnv()
	build, err := ge.compileGraph(w.e, graphSource(cs.Kinds, cs.Edges))
	if err != nil {
		w.st.Inconcl = append(w.st.Inconcl, "replay: graph program does not compile: "+err.Error())
		return
	}
	w.runGraphOp(ge, cs, build)
}

func (w *wk) runGraphOp(ge *graphEnv, cs *Case, build starlark.Value) {
	var err error
	var steps uint64
	pm, where := guard(func() {
		th := newThread(stepLimit, false)
		if cs.Op == "go:modfreeze" {
			// the root becomes a global of a module: ExecFile freezes it on return
			src := graphSource(cs.Kinds, cs.Edges) + "root = build()\n"
			_, err = starlark.ExecFileOptions(allOn, th, "c02graph.star", src, ge.predeclared(w.e))
			steps = th.ExecutionSteps()
			return
		}
		var r, q starlark.Value
		r, err = starlark.Call(th, build, nil, nil)
		if err != nil {
			fw.Fatal("graph build failed: %v\n%s", err, graphSource(cs.Kinds, cs.Edges))
		}
		var qargs starlark.Tuple
		if strings.HasSuffix(cs.Op, "_other") {
			qargs = starlark.Tuple{starlark.True} // q: the same graph with one more element in its root
		}
		q, err = starlark.Call(th, build, qargs, nil)
		if err != nil {
			fw.Fatal("graph build failed: %v\n%s", err, graphSource(cs.Kinds, cs.Edges))
		}
		op := cs.Op
		if strings.HasPrefix(op, "frozen:") {
			op = strings.TrimPrefix(op, "frozen:")
			r.Freeze()
			q.Freeze()
		}
		switch op {
		case "go:Freeze":
			r.Freeze()
		case "go:String":
			_ = r.String()
		case "go:Hash":
			_, err = r.Hash()
		default:
			fn := ge.ops["op_"+op]
			if fn == nil {
				fw.Fatal("unknown graph op %s", cs.Op)
			}
			var v starlark.Value
			v, err = starlark.Call(th, fn, starlark.Tuple{r, q}, nil)
			if err == nil && v != nil {
				_ = v.Type()
			}
		}
		steps = th.ExecutionSteps()
	})
	if pm != "" {
		w.st.Outcome("graph:" + cs.Op + ":panic")
		w.violate(cs, "panic "+normPanic(pm), fmt.Sprintf("Go panic escaped: %s (innermost starlark-go frame: %s); graph program:\n%s", pm, where, graphSource(cs.Kinds, cs.Edges)))
		return
	}
	if steps > stepLimit+stepSlack {
		w.violate(cs, "ran past step budget", fmt.Sprintf("ExecutionSteps()=%d", steps))
	}
	if err != nil {
		w.st.Outcome("graph:" + cs.Op + ":error")
	} else {
		w.st.Outcome("graph:" + cs.Op + ":ok")
	}
	if cycleKinds(cs.Kinds, cs.Edges) != "-" {
		w.st.Count("graph_cases_with_a_cycle", 1)
		w.st.Nontrivial++
	}
	if w.executed%100003 == 11 {
		w.st.Sample(map[string]any{"graph": cs, "program": graphSource(cs.Kinds, cs.Edges)})
	}
}
