package c02

import (
	"runtime/debug"
	"strings"
)

// Single-token mutations of valid texts.  The token strings of length <= 3
// (4 thorough) reach only the outermost layer of the grammar; most of the
// parser, resolver and compiler runs only once a text is nearly valid.  Every
// base below is a valid text that uses one group of productions; every
// deletion, duplication, adjacent swap and replacement (by each token of the
// full alphabet) of one of its tokens is executed under no options and under
// all options.

var mutationBases = []string{
	"def f ( a , b = 1 , * c , d , e = 2 , ** k ) : pass NL",
	"def f ( * , a ) : return a NL",
	"def f ( ** k ) : pass NL",
	"def f ( * x , y ) : return x NL f ( y = 1 ) NL",
	"z = lambda * x , y : x NL z ( y = 1 ) NL",
	"def f ( x , * , y = 1 , ** k ) : return x NL f ( 1 , y = 2 , x1 = 3 ) NL",
	"def f ( * a ) : IN return a NL",
	"def f ( a = x ) : IN \"s\" IN return a NL f ( ) NL",
	"def f ( ) : IN def g ( ) : IN2 return x IN return g NL f ( ) ( ) NL",
	"z = lambda a , * b , ** c : a NL",
	"z = lambda ** k : 0 NL",
	"z = lambda * , a : 0 NL",
	"z = lambda : 0 NL",
	"z = ( lambda a = 1 : a ) ( ) NL",
	"z = [ a for a in x if a ] NL",
	"z = { a : a for a in x } NL",
	"z = [ a for a , b in [ ( 1 , 2 ) ] for c in x ] NL",
	"z = [ [ b for b in x ] for a in x ] NL",
	"z = len ( x , * x , ** { } ) NL",
	"z = dict ( a = 1 , ** { } ) NL",
	"z = x [ 0 : 1 : 1 ] NL",
	"z = x [ : ] NL",
	"x [ 0 ] = 1 NL",
	"x [ 0 ] += 1 NL",
	"m . a = 1 NL",
	"a , b = x NL",
	"( a , b ) = x NL",
	"[ a , b ] = x NL",
	"a , ( b , c ) = 1 , ( 2 , 3 ) NL",
	"for a in x : pass NL",
	"for a , b in [ x ] : IN break NL",
	"for a in x : IN continue NL",
	"if x : pass NL",
	"if x : IN pass NL elif x : IN pass NL else : IN pass NL",
	"while x : IN break NL",
	"def f ( ) : IN for a in x : IN2 if a : IN2 continue IN2 return a IN return x NL f ( ) NL",
	"load ( \"m\" , \"a\" , b = \"c\" ) NL",
	"z = 1 if x else 2 NL",
	"z = not x and x or x NL",
	"z = - 1 + ~ 1 * 2 NL",
	"z = 1 in x NL",
	"z = 1 not in x NL",
	"z = 1 < 2 NL",
	"z = ( 1 , ) NL",
	"z = ( ) NL",
	"z = [ 1 , 2 , ] NL",
	"z = { 1 : 2 , } NL",
	"z = \"s\" % ( 1 , ) NL",
	"z = x . index ( 0 ) NL",
	"pass ; pass NL",
	"z = 1 ; w = 2 NL",
	"z = b\"b\" + b\"b\" NL",
	"z = 1.5 // 2 NL",
	"z = x NL z |= x NL",
	"z = x NL z <<= 1 NL",
	"def f ( a , b ) : IN return a NL f ( 1 , b = 2 ) NL",
	"def f ( a , * , b ) : IN return a NL f ( 1 , b = 2 ) NL",
	"z = json . encode ( x ) NL",
	"z = struct ( a = 1 ) . a NL",
}

func mutationTokens(base string) []string {
	var out []string
	for _, t := range strings.Fields(base) {
		switch t {
		case "NL":
			t = "\n"
		case "IN":
			t = "\n  "
		case "IN2":
			t = "\n    "
		}
		out = append(out, t)
	}
	return out
}

func joinTokenStrings(toks []string) string {
	var sb strings.Builder
	for i, t := range toks {
		if i > 0 {
			s := sb.String()
			if c := s[len(s)-1]; c != '\n' && c != ' ' {
				sb.WriteByte(' ')
			}
		}
		sb.WriteString(t)
	}
	return sb.String()
}

// eachMutation calls f with the base itself and every single-token mutation.
func eachMutation(base []string, al []string, f func(toks []string)) {
	f(base)
	n := len(base)
	buf := make([]string, 0, n+1)
	for i := 0; i < n; i++ {
		// deletion
		buf = append(append(buf[:0], base[:i]...), base[i+1:]...)
		f(buf)
		// duplication
		buf = append(append(append(buf[:0], base[:i+1]...), base[i]), base[i+1:]...)
		f(buf)
		// swap with the next token
		if i+1 < n {
			buf = append(buf[:0], base...)
			buf[i], buf[i+1] = buf[i+1], buf[i]
			f(buf)
		}
		// replacement and insertion
		for _, t := range al {
			if t != base[i] {
				buf = append(buf[:0], base...)
				buf[i] = t
				f(buf)
			}
			buf = append(append(append(buf[:0], base[:i]...), t), base[i:]...)
			f(buf)
		}
	}
}

func (w *wk) mutationLevel(opts []int, entries []string) {
	al := alphabet(false)
	debug.SetMaxStack(defaultMaxStack)
	for _, b := range mutationBases {
		base := mutationTokens(b)
		var total int64
		eachMutation(base, al, func([]string) { total++ })
		total *= int64(len(opts) * len(entries))
		if w.skipBlock(total) {
			continue
		}
		eachMutation(base, al, func(toks []string) {
			src := joinTokenStrings(toks)
			for _, o := range opts {
				for _, en := range entries {
					if !w.takeIdx() {
						continue
					}
					cs := &Case{F: "text", Src: []byte(src), Opt: o, Entry: en}
					if !w.begin(cs) {
						continue
					}
					w.execText(cs)
					w.end()
				}
			}
		})
	}
}
