package c02

// Operators and statement forms as callables of the direct-call family: each
// def below is compiled by the real pipeline once and then called like a
// built-in with every positional tuple over the pool, so that every binary
// and unary operator, augmented assignment (with its in-place paths), index,
// slice, index assignment, field access, membership, comparison, conditional,
// iteration construct, argument expansion and display is reached with every
// combination of edge values (not only through token strings of <= 4 tokens).

import (
	"sort"

	"go.starlark.net/starlark"
)

const opsSrc = `
def _id(*args, **kwargs): return (args, kwargs)
def add(a, b): return a + b
def sub(a, b): return a - b
def mul(a, b): return a * b
def div(a, b): return a / b
def floordiv(a, b): return a // b
def mod(a, b): return a % b
def and_(a, b): return a & b
def or_(a, b): return a | b
def xor(a, b): return a ^ b
def shl(a, b): return a << b
def shr(a, b): return a >> b
def in_(a, b): return a in b
def not_in(a, b): return a not in b
def eq(a, b): return a == b
def ne(a, b): return a != b
def lt(a, b): return a < b
def le(a, b): return a <= b
def gt(a, b): return a > b
def ge(a, b): return a >= b
def neg(a): return -a
def pos(a): return +a
def invert(a): return ~a
def not_(a): return not a
def iadd(a, b):
    a += b
    return a
def isub(a, b):
    a -= b
    return a
def imul(a, b):
    a *= b
    return a
def idiv(a, b):
    a /= b
    return a
def ifloordiv(a, b):
    a //= b
    return a
def imod(a, b):
    a %= b
    return a
def iand(a, b):
    a &= b
    return a
def ior(a, b):
    a |= b
    return a
def ixor(a, b):
    a ^= b
    return a
def ishl(a, b):
    a <<= b
    return a
def ishr(a, b):
    a >>= b
    return a
def index(a, b): return a[b]
def setindex(a, b, c):
    a[b] = c
    return a
def iaddindex(a, b, c):
    a[b] += c
    return a
def slice1(a, b): return a[b:]
def slice2(a, b, c): return a[b:c]
def slice_step(a, b, c): return a[b::c]
def slice_stop_step(a, b, c): return a[:b:c]
def attr(a): return a.a
def setattr_(a, b):
    a.a = b
    return a
def iaddattr(a, b):
    a.a += b
    return a
def cond(a, b, c): return b if a else c
def and_or(a, b, c): return a and b or c
def call1(a, b): return a(b)
def call_kw(a, b): return a(k=b)
def call_star(a, b): return a(*b)
def call_dstar(a, b): return a(**b)
def star(a): return _id(*a)
def dstar(a): return _id(**a)
def star_dstar(a, b): return _id(1, k=2, *a, **b)
def for_(a):
    n = 0
    for x in a:
        n += 1
    return n
def for_pair(a):
    n = 0
    for x, y in a:
        n += 1
    return n
def unpack2(a):
    x, y = a
    return x
def unpack_nested(a):
    (x, y), z = a
    return z
def listcomp(a): return [x for x in a]
def listcomp2(a, b): return [(x, y) for x in a for y in b if x]
def dictcomp(a, b): return {x: b for x in a}
def dict_display(a, b): return {a: b, b: a}
def list_display(a, b): return [a, b, a]
def tuple_display(a, b): return (a, b)
def fmt_tuple(a, b, c): return a % (b, c)
def chain_cmp(a, b, c): return (a < b) == (b < c)
def while_(a):
    n = 0
    while a:
        n += 1
        if n > 3:
            break
    return n
def nested_mutate(a, b):
    for x in a:
        a += b
    return a
def lambda_default(a, b): return (lambda x=a, *y, **z: (x, y, z))(*b)
`

// opCallables compiles opsSrc and returns one callable per def.
func (e *env) opCallables() []callable {
	th := &starlark.Thread{Name: "c02-ops", Print: discardPrint}
	g, err := starlark.ExecFileOptions(allOn, th, "c02ops.star", opsSrc, nil)
	if err != nil {
		panic("c02 ops: " + err.Error())
	}
	var names []string
	for n := range g {
		if n != "_id" {
			names = append(names, n)
		}
	}
	sort.Strings(names)
	var cs []callable
	for _, n := range names {
		v := g[n]
		cs = append(cs, callable{fn: "op." + n, recv: -1, rep: true, get: func() (starlark.Value, func()) { return v, nodone }})
	}
	return cs
}
