package c02

// Family 1: direct calls of every discovered callable.

import (
	"fmt"
	"regexp"
	"runtime/debug"
	"time"

	"go.starlark.net/starlark"
)

func mix(h, x uint32) uint32 { return (h ^ x) * 16777619 }

func avalanche(h uint32) uint32 {
	h ^= h >> 15
	h *= 0x2c1b3c6d
	h ^= h >> 12
	h *= 0x297a2d39
	h ^= h >> 15
	return h
}

type callIdx struct {
	fnHash  map[string]uint32
	typHash []uint32 // per pool index
}

func (w *wk) callIndex() *callIdx {
	ci := &callIdx{fnHash: map[string]uint32{}}
	for _, cl := range w.calls {
		ci.fnHash[cl.fn] = hashString(cl.fn)
	}
	for _, p := range w.e.pool {
		ci.typHash = append(ci.typHash, hashString(p.typ))
	}
	return ci
}

func (w *wk) names(idx []int) []string {
	out := make([]string, len(idx))
	for i, x := range idx {
		out[i] = w.e.pool[x].name
	}
	return out
}

// callLevel enumerates, for every callable, every positional tuple of length n
// (over the full pool for n <= 2, over the sub-pool for n == 3).
func (w *wk) callLevel(n int) {
	ci := w.callIndex()
	dom := make([]int, len(w.e.pool))
	for i := range dom {
		dom[i] = i
	}
	if n >= 3 {
		dom = w.e.sub
	}
	tuple := make([]int, n)
	per := int64(1)
	for i := 0; i < n; i++ {
		per *= int64(len(dom))
	}
	for k := range w.calls {
		cl := &w.calls[k]
		if w.skipBlock(per) {
			continue
		}
		fh := ci.fnHash[cl.fn]
		var rec func(pos int, h uint32)
		rec = func(pos int, h uint32) {
			if pos == n {
				if !w.take(avalanche(h)) {
					return
				}
				cs := &Case{F: "call", Fn: cl.fn, Args: w.names(tuple)}
				if cl.recv >= 0 {
					cs.Recv = w.recvs[cl.recv].name
				}
				w.runCall(cl, cs)
				return
			}
			for _, v := range dom {
				tuple[pos] = v
				rec(pos+1, mix(h, ci.typHash[v]))
			}
		}
		rec(0, fh)
	}
}

// kwLevel enumerates keyword lists over each callable's accepted parameter
// names plus one unknown name.
func (w *wk) kwLevel() {
	ci := w.callIndex()
	nameHash := map[string]uint32{}
	nh := func(s string) uint32 {
		if h, ok := nameHash[s]; ok {
			return h
		}
		h := hashString("kw:" + s)
		nameHash[s] = h
		return h
	}
	all := make([]int, len(w.e.pool))
	for i := range all {
		all[i] = i
	}
	sub := w.e.sub
	for k := range w.calls {
		cl := &w.calls[k]
		fh := ci.fnHash[cl.fn]
		names := append(append([]string{}, cl.kw...), unknownKw)
		nn, ns := int64(len(names)), int64(len(sub))
		if w.skipBlock(nn*int64(len(all))*(1+ns) + nn*(nn-1)/2*ns*ns + nn*9) {
			continue
		}
		emit := func(pos []int, kn []string, kv []int) {
			h := fh
			for _, p := range pos {
				h = mix(h, ci.typHash[p])
			}
			for i, n := range kn {
				h = mix(mix(h, nh(n)), ci.typHash[kv[i]])
			}
			if !w.take(avalanche(h)) {
				return
			}
			cs := &Case{F: "call", Fn: cl.fn, Args: w.names(pos), KwN: append([]string{}, kn...), KwV: w.names(kv)}
			if cl.recv >= 0 {
				cs.Recv = w.recvs[cl.recv].name
			}
			w.runCall(cl, cs)
		}
		// (a) one keyword over the full pool, with no or one positional argument
		for _, n := range names {
			for _, v := range all {
				emit(nil, []string{n}, []int{v})
				for _, p := range sub {
					emit([]int{p}, []string{n}, []int{v})
				}
			}
		}
		// (b) two different keywords over the sub-pool squared
		for i := 0; i < len(names); i++ {
			for j := i + 1; j < len(names); j++ {
				for _, v1 := range sub {
					for _, v2 := range sub {
						emit(nil, []string{names[i], names[j]}, []int{v1, v2})
					}
				}
			}
		}
		// (c) the same keyword twice
		for _, n := range names {
			for _, v1 := range sub[:3] {
				for _, v2 := range sub[:3] {
					emit(nil, []string{n, n}, []int{v1, v2})
				}
			}
		}
	}
}

func (w *wk) attrLevel() {
	for _, a := range w.attrs {
		if !w.take(avalanche(hashString("attr " + a.fn))) {
			continue
		}
		cs := &Case{F: "attr", Fn: a.fn, Recv: w.recvs[a.recv].name, Op: a.name}
		if !w.begin(cs) {
			continue
		}
		w.execAttrCase(cs)
		w.end()
	}
}

func (w *wk) execAttrCase(cs *Case) {
	var rv *recvVariant
	for i := range w.recvs {
		if w.recvs[i].name == cs.Recv {
			rv = &w.recvs[i]
		}
	}
	if rv == nil {
		w.st.Inconcl = append(w.st.Inconcl, "replay: unknown receiver "+cs.Recv)
		return
	}
	var err error
	pm, where := guard(func() {
		x, done := rv.mk()
		defer done()
		var v starlark.Value
		v, err = x.(starlark.HasAttrs).Attr(cs.Op)
		if err == nil && v != nil {
			_ = v.String()
		}
	})
	if pm != "" {
		w.violate(cs, "panic "+normPanic(pm), fmt.Sprintf("reading attribute %s of %s panicked: %s at %s", cs.Op, cs.Recv, pm, where))
		return
	}
	if err != nil {
		w.st.Outcome("attr:error")
	} else {
		w.st.Outcome("attr:value")
		w.st.Nontrivial++
	}
}

func (w *wk) runCall(cl *callable, cs *Case) {
	if !w.begin(cs) {
		return
	}
	w.execCall(cl, cs, false)
	w.end()
}

func (w *wk) execCallCase(cs *Case, isReplay bool) {
	for i := range w.calls {
		cl := &w.calls[i]
		if cl.fn != cs.Fn {
			continue
		}
		if cl.recv >= 0 && w.recvs[cl.recv].name != cs.Recv {
			continue
		}
		if cl.recv < 0 && cs.Recv != "" {
			continue
		}
		w.execCall(cl, cs, isReplay)
		return
	}
	w.st.Inconcl = append(w.st.Inconcl, "replay: callable not found: "+cs.Fn+" on "+cs.Recv)
}

func (w *wk) poolIdx(names []string) []int {
	out := make([]int, len(names))
	for i, n := range names {
		j, ok := w.e.byName[n]
		if !ok {
			panic("unknown pool value " + n)
		}
		out[i] = j
	}
	return out
}

// invoke performs the call with fresh argument values. If probe is non-nil the
// astronomically long iterable is replaced by a counting stand-in.
func (w *wk) invoke(cl *callable, args, kwv []int, kwn []string, ctr *int) (v starlark.Value, err error, steps uint64) {
	mkv := func(i int) starlark.Value {
		p := &w.e.pool[i]
		if p.astro && ctr != nil {
			return probeSeq{n: probeLen, ctr: ctr}
		}
		return p.mk()
	}
	fn, done := cl.get()
	defer done()
	a := make(starlark.Tuple, len(args))
	for i, x := range args {
		a[i] = mkv(x)
	}
	var kw []starlark.Tuple
	for i, n := range kwn {
		kw = append(kw, starlark.Tuple{starlark.String(n), mkv(kwv[i])})
	}
	th := newThread(stepLimit, false)
	v, err = starlark.Call(th, fn, a, kw)
	steps = th.ExecutionSteps()
	if err == nil && v != nil && ctr == nil {
		_ = v.String() // a returned value must at least be printable,
		_ = v.Type()
		_ = v.Truth()
		_, _ = v.Hash()             // hashable or refused,
		_, _ = starlark.Equal(v, v) // comparable with itself,
		v.Freeze()                  // and freezable (what happens to it when stored in a global)
	}
	return v, err, steps
}

// bindingErrRE recognises failures raised while binding arguments to
// parameters (arity, unknown or repeated keyword); such cases are judged but
// not counted as non-trivial.
var bindingErrRE = regexp.MustCompile(`got \d+ arguments?|missing argument|unexpected keyword|accepts no|does not accept|got multiple values|takes exactly|takes at most|takes at least`)

func (w *wk) execCall(cl *callable, cs *Case, isReplay bool) {
	args, kwv := w.poolIdx(cs.Args), w.poolIdx(cs.KwV)
	debug.SetMaxStack(smallStack)
	astro := false
	for _, x := range args {
		astro = astro || w.e.pool[x].astro
	}
	for _, x := range kwv {
		astro = astro || w.e.pool[x].astro
	}
	if astro {
		ctr := 0
		guard(func() { w.invoke(cl, args, kwv, cs.KwN, &ctr) })
		if ctr >= probeLen {
			rep := cl.rep && len(args) == 1 && len(kwv) == 0
			if !rep && !isReplay {
				w.st.Evals--
				w.st.Count("level_cases:"+w.level, -1)
				w.st.Count("skipped_heavy: "+w.e.caseKey(cs), 1)
				w.st.Count("cases_skipped_walks_range_2^62", 1)
				return
			}
			w.st.Count("heavy_representatives_executed", 1)
			w.caseLimit.Store(int64(watchdogHeavy))
			w.caseStart.Store(time.Now().UnixNano())
		}
	}
	var v starlark.Value
	var err error
	var steps uint64
	pm, where := guard(func() { v, err, steps = w.invoke(cl, args, kwv, cs.KwN, nil) })
	if pm != "" {
		w.st.Outcome("call:panic")
		w.violate(cs, "panic "+normPanic(pm), fmt.Sprintf("Go panic escaped from the call: %s (innermost starlark-go frame: %s)", pm, where))
		return
	}
	if steps > stepLimit+stepSlack {
		w.violate(cs, "ran past step budget", fmt.Sprintf("ExecutionSteps()=%d after return, budget %d", steps, stepLimit))
	}
	if err != nil {
		w.st.Outcome("call:" + cl.fn + ":error")
		w.st.Count("calls_returned_error", 1)
		if !bindingErrRE.MatchString(err.Error()) {
			w.st.Nontrivial++
			w.st.Count("calls_failed_past_argument_binding", 1)
		}
	} else {
		w.st.Outcome("call:" + cl.fn + ":" + v.Type())
		w.st.Count("calls_returned_value", 1)
		w.st.Nontrivial++
		if w.executed%50021 == 1 {
			w.st.Sample(map[string]any{"case": cs, "result_type": v.Type()})
		}
	}
}
