package c02

// The pool P of edge-case argument values, the receiver variants, and the
// discovery (by reflection over Universe / AttrNames / module Members) of
// every callable the direct-call family exercises.

import (
	"fmt"
	"math"
	"math/big"
	"os"
	"regexp"
	"runtime/debug"
	"sort"
	"strings"
	gotime "time"

	sjson "go.starlark.net/lib/json"
	smath "go.starlark.net/lib/math"
	stime "go.starlark.net/lib/time"
	"go.starlark.net/starlark"
	"go.starlark.net/starlarkstruct"
	"go.starlark.net/syntax"
)

// pval is one pool value. mk returns a value that no other case can see
// (mutable values are rebuilt on every call; immutable ones may be shared).
type pval struct {
	name  string
	typ   string // Starlark type name (argument class)
	mk    func() starlark.Value
	astro bool // an astronomically long iterable (see heavy-case rule)
}

const (
	largeN    = 100
	astroLen  = int64(1) << 62
	probeLen  = 4096
	longStrN  = 1002
	stepLimit = 100000
)

func bigInt(s string) starlark.Int {
	b, ok := new(big.Int).SetString(s, 0)
	if !ok {
		panic("bad int " + s)
	}
	return starlark.MakeBigInt(b)
}

func pow2(n uint, delta int64) starlark.Int {
	b := new(big.Int).Lsh(big.NewInt(1), n)
	b.Add(b, big.NewInt(delta))
	return starlark.MakeBigInt(b)
}

func negpow2(n uint, delta int64) starlark.Int {
	b := new(big.Int).Lsh(big.NewInt(1), n)
	b.Neg(b)
	b.Add(b, big.NewInt(delta))
	return starlark.MakeBigInt(b)
}

var longString = strings.Repeat("ab ", longStrN/3)

const nonUTF8 = "\xffa\xc0 b\xe2\x28\xa1"

func smallInts(n int) []starlark.Value {
	e := make([]starlark.Value, n)
	for i := range e {
		e[i] = starlark.MakeInt(i)
	}
	return e
}

func largeDict() *starlark.Dict {
	d := starlark.NewDict(largeN)
	for i := 0; i < largeN; i++ {
		d.SetKey(starlark.MakeInt(i), starlark.MakeInt(i))
	}
	return d
}

func largeSet() *starlark.Set {
	s := starlark.NewSet(largeN)
	for i := 0; i < largeN; i++ {
		s.Insert(starlark.MakeInt(i))
	}
	return s
}

func smallDict() *starlark.Dict {
	d := new(starlark.Dict)
	d.SetKey(starlark.String("a"), starlark.MakeInt(1))
	d.SetKey(starlark.MakeInt(1), starlark.String("b"))
	d.SetKey(starlark.String("k"), starlark.NewList([]starlark.Value{starlark.MakeInt(2)}))
	return d
}

func smallSet() *starlark.Set {
	s := new(starlark.Set)
	s.Insert(starlark.MakeInt(1))
	s.Insert(starlark.String("a"))
	s.Insert(starlark.MakeInt(3))
	return s
}

func smallList() *starlark.List {
	return starlark.NewList([]starlark.Value{starlark.MakeInt(1), starlark.String("a"), starlark.MakeInt(3)})
}

func frozen[T starlark.Value](v T) T { v.Freeze(); return v }

// helperSrc defines the Starlark-level values the pool and the nesting family
// need: a closure accepting anything, a function returning itself.
const helperSrc = `
def _mk():
    cap = [1]
    def clo(*args, **kwargs):
        return (cap, args)
    return clo
clo = _mk()
def selfret():
    return selfret
`

type env struct {
	pool     []pval
	byName   map[string]int
	sub      []int // indices of the sub-pool used for triples / keyword values
	clo      starlark.Value
	selfret  starlark.Value
	structB  *starlark.Builtin
	timeV    starlark.Value
	durV     starlark.Value
	rangeBig starlark.Value
	range3   starlark.Value
}

func discardPrint(*starlark.Thread, string) {}

func loadStub(th *starlark.Thread, module string) (starlark.StringDict, error) {
	if module == "err" {
		return nil, fmt.Errorf("no such module")
	}
	return starlark.StringDict{"x": starlark.MakeInt(1), "s": starlark.String("s")}, nil
}

var allOn = &syntax.FileOptions{Set: true, While: true, TopLevelControl: true, GlobalReassign: true, LoadBindsGlobally: true, Recursion: true}

func newEnv(thorough bool) *env {
	e := &env{byName: map[string]int{}}
	th := &starlark.Thread{Name: "c02-helpers", Print: discardPrint}
	g, err := starlark.ExecFileOptions(allOn, th, "c02helpers.star", helperSrc, nil)
	if err != nil {
		panic("c02 helpers: " + err.Error())
	}
	e.clo = g["clo"]
	e.selfret = g["selfret"]
	e.structB = starlark.NewBuiltin("struct", starlarkstruct.Make)
	e.timeV = stime.Time(gotime.Date(2021, 2, 3, 4, 5, 6, 7, gotime.UTC))
	e.durV = stime.Duration(90*gotime.Minute + 5*gotime.Nanosecond)
	rng := starlark.Universe["range"]
	mkRange := func(n starlark.Int) starlark.Value {
		v, err := starlark.Call(&starlark.Thread{}, rng, starlark.Tuple{n}, nil)
		if err != nil {
			panic("range: " + err.Error())
		}
		return v
	}
	e.rangeBig = mkRange(pow2(62, 0))
	e.range3 = mkRange(starlark.MakeInt(3))

	add := func(name string, mk func() starlark.Value) {
		v := mk()
		e.byName[name] = len(e.pool)
		e.pool = append(e.pool, pval{name: name, typ: v.Type(), mk: mk})
	}
	konst := func(name string, v starlark.Value) { add(name, func() starlark.Value { return v }) }

	konst("None", starlark.None)
	konst("True", starlark.True)
	konst("False", starlark.False)
	konst("0", starlark.MakeInt(0))
	konst("1", starlark.MakeInt(1))
	konst("-1", starlark.MakeInt(-1))
	konst("2^31-1", pow2(31, -1))
	konst("2^31", pow2(31, 0))
	konst("2^31+1", pow2(31, 1))
	konst("-2^31", negpow2(31, 0)) // the one small int whose negation is not one
	konst("-2^31+1", negpow2(31, 1))
	konst("-2^31-1", negpow2(31, -1))
	konst("2^62", pow2(62, 0))
	konst("-2^62", negpow2(62, 0))
	konst("2^63-1", pow2(63, -1))
	konst("2^63", pow2(63, 0))
	konst("2^63+1", pow2(63, 1))
	konst("-2^63", negpow2(63, 0))
	konst("-2^63+1", negpow2(63, 1))
	konst("-2^63-1", negpow2(63, -1))
	konst("2^64", pow2(64, 0))
	konst("2^200", pow2(200, 0))
	konst("0.0", starlark.Float(0))
	konst("-0.0", starlark.Float(math.Copysign(0, -1)))
	konst("inf", starlark.Float(math.Inf(1)))
	konst("-inf", starlark.Float(math.Inf(-1)))
	konst("nan", starlark.Float(math.NaN()))
	konst("1e308", starlark.Float(1e308))
	konst(`""`, starlark.String(""))
	konst(`"a b"`, starlark.String("a b"))
	konst("str:long", starlark.String(longString))
	konst("str:nonutf8", starlark.String(nonUTF8))
	konst("bytes", starlark.Bytes("a\xff\x00b"))
	add("list:empty", func() starlark.Value { return starlark.NewList(nil) })
	add("list:large", func() starlark.Value { return starlark.NewList(smallInts(largeN)) })
	add("list:frozen", func() starlark.Value { return frozen(smallList()) })
	add("list:self", func() starlark.Value {
		l := starlark.NewList([]starlark.Value{starlark.MakeInt(1)})
		l.Append(l)
		return l
	})
	add("dict:empty", func() starlark.Value { return new(starlark.Dict) })
	add("dict:large", func() starlark.Value { return largeDict() })
	add("dict:frozen", func() starlark.Value { return frozen(smallDict()) })
	add("dict:self", func() starlark.Value {
		d := smallDict()
		d.SetKey(starlark.String("self"), d)
		return d
	})
	add("set:empty", func() starlark.Value { return new(starlark.Set) })
	add("set:large", func() starlark.Value { return largeSet() })
	add("set:frozen", func() starlark.Value { return frozen(smallSet()) })
	konst("tuple:empty", starlark.Tuple{})
	add("tuple:large", func() starlark.Value { return starlark.Tuple(smallInts(largeN)) })
	add("tuple:cyclic", func() starlark.Value {
		l := starlark.NewList(nil)
		t := starlark.Tuple{starlark.MakeInt(1), l}
		l.Append(t)
		return t
	})
	// iterables of unknown length (Len() absent or -1): views of strings and bytes, and a host iterable
	for _, src := range []string{`"ab".codepoints()`, `"a".elems()`, `"".codepoints()`, `b"ab".elems()`, `"abc".codepoint_ords()`} {
		src := src
		v, err := starlark.EvalOptions(allOn, &starlark.Thread{}, "pool", src, nil)
		if err != nil {
			panic("pool " + src + ": " + err.Error())
		}
		konst(src, v)
	}
	konst("hostiter(3)", hostIter{3})
	konst("range(2^62)", e.rangeBig)
	e.pool[len(e.pool)-1].astro = true
	add("struct", func() starlark.Value {
		return starlarkstruct.FromStringDict(starlarkstruct.Default, starlark.StringDict{
			"a": starlark.MakeInt(1), "b": smallList(), "c": starlark.String("s")})
	})
	konst("closure", e.clo)
	konst("builtin", starlark.Universe["len"])
	konst("time", e.timeV)
	konst("duration", e.durV)

	subNames := []string{"None", "0", "-1", "2^62", "-2^63", "inf", `""`, `"a b"`, "bytes", "list:self", "dict:frozen", "closure", `"a".elems()`}
	if thorough {
		subNames = append(subNames, "True", "1", "2^31+1", "nan", "str:long", "set:large", "tuple:cyclic", "range(2^62)")
	}
	for _, n := range subNames {
		i, ok := e.byName[n]
		if !ok {
			panic("sub-pool name " + n)
		}
		e.sub = append(e.sub, i)
	}
	return e
}

// hostIter is a host-defined iterable that has no Len method.
type hostIter struct{ n int }

func (h hostIter) String() string        { return fmt.Sprintf("hostiter(%d)", h.n) }
func (h hostIter) Type() string          { return "hostiter" }
func (h hostIter) Freeze()               {}
func (h hostIter) Truth() starlark.Bool  { return true }
func (h hostIter) Hash() (uint32, error) { return 0, fmt.Errorf("unhashable: hostiter") }
func (h hostIter) Iterate() starlark.Iterator {
	return &hostIterator{n: h.n}
}

type hostIterator struct{ i, n int }

func (it *hostIterator) Next(p *starlark.Value) bool {
	if it.i >= it.n {
		return false
	}
	*p = starlark.MakeInt(it.i)
	it.i++
	return true
}
func (it *hostIterator) Done() {}

// ---------------------------------------------------------------------------
// probe sequence: stands in for range(2^62) to find out, without running the
// real call, whether the call would walk the whole iterable.

type probeSeq struct {
	n   int
	ctr *int
}

func (p probeSeq) String() string        { return fmt.Sprintf("range(%d)", p.n) }
func (p probeSeq) Type() string          { return "range" }
func (p probeSeq) Freeze()               {}
func (p probeSeq) Truth() starlark.Bool  { return p.n > 0 }
func (p probeSeq) Hash() (uint32, error) { return 0, fmt.Errorf("unhashable: range") }
func (p probeSeq) Len() int              { return p.n }
func (p probeSeq) Index(i int) starlark.Value {
	*p.ctr++
	return starlark.MakeInt(i)
}
func (p probeSeq) Slice(start, end, step int) starlark.Value {
	n := 0
	if step > 0 && end > start {
		n = (end - start + step - 1) / step
	} else if step < 0 && start > end {
		n = (start - end - step - 1) / -step
	}
	return probeSeq{n: n, ctr: p.ctr}
}
func (p probeSeq) Iterate() starlark.Iterator { return &probeIter{p: p} }

type probeIter struct {
	p probeSeq
	i int
}

func (it *probeIter) Next(v *starlark.Value) bool {
	if it.i >= it.p.n {
		return false
	}
	*it.p.ctr++
	*v = starlark.MakeInt(it.i)
	it.i++
	return true
}
func (it *probeIter) Done() {}

var (
	_ starlark.Sequence  = probeSeq{}
	_ starlark.Indexable = probeSeq{}
	_ starlark.Sliceable = probeSeq{}
)

// ---------------------------------------------------------------------------
// receivers and callables

type recvVariant struct {
	name string
	typ  string
	rep  bool // the representative variant of its type (heavy-case rule)
	mk   func() (v starlark.Value, done func())
}

type callable struct {
	fn    string // display name: "len", "json.encode", "string.rsplit"
	recv  int    // receiver variant index, -1 for functions
	get   func() (fn starlark.Value, done func())
	kw    []string // keyword names the callable accepts (discovered by probing)
	anyKw bool     // accepts arbitrary keywords
	rep   bool
}

type attrCase struct {
	fn   string
	recv int
	name string
}

func nodone() {}

func plain(v func() starlark.Value) func() (starlark.Value, func()) {
	return func() (starlark.Value, func()) { return v(), nodone }
}

func iterating(v func() starlark.Value) func() (starlark.Value, func()) {
	return func() (starlark.Value, func()) {
		x := v()
		it := x.(starlark.Iterable).Iterate()
		var e starlark.Value
		it.Next(&e)
		return x, it.Done
	}
}

func (e *env) receivers() []recvVariant {
	str := func(s string) func() (starlark.Value, func()) {
		return plain(func() starlark.Value { return starlark.String(s) })
	}
	rs := []recvVariant{
		{name: "str:empty", mk: str("")},
		{name: "str:ws", mk: str(" a b\t\nA1 b "), rep: true},
		{name: "str:long", mk: str(longString)},
		{name: "str:nonutf8", mk: str(nonUTF8)},
		{name: "str:format", mk: str("{}{0}{a!r}{{%s%d%(k)s%")},
		{name: "bytes:empty", mk: plain(func() starlark.Value { return starlark.Bytes("") })},
		{name: "bytes:bin", mk: plain(func() starlark.Value { return starlark.Bytes("a\xff\x00b") }), rep: true},
		{name: "list:empty", mk: plain(func() starlark.Value { return starlark.NewList(nil) })},
		{name: "list:mutable", mk: plain(func() starlark.Value { return smallList() }), rep: true},
		{name: "list:frozen", mk: plain(func() starlark.Value { return frozen(smallList()) })},
		{name: "list:iterating", mk: iterating(func() starlark.Value { return smallList() })},
		{name: "list:self", mk: plain(func() starlark.Value {
			l := smallList()
			l.Append(l)
			return l
		})},
		{name: "dict:empty", mk: plain(func() starlark.Value { return new(starlark.Dict) })},
		{name: "dict:mutable", mk: plain(func() starlark.Value { return smallDict() }), rep: true},
		{name: "dict:frozen", mk: plain(func() starlark.Value { return frozen(smallDict()) })},
		{name: "dict:iterating", mk: iterating(func() starlark.Value { return smallDict() })},
		{name: "set:empty", mk: plain(func() starlark.Value { return new(starlark.Set) })},
		{name: "set:mutable", mk: plain(func() starlark.Value { return smallSet() }), rep: true},
		{name: "set:frozen", mk: plain(func() starlark.Value { return frozen(smallSet()) })},
		{name: "set:iterating", mk: iterating(func() starlark.Value { return smallSet() })},
		{name: "tuple", mk: plain(func() starlark.Value { return starlark.Tuple{starlark.MakeInt(1)} }), rep: true},
		{name: "range", mk: plain(func() starlark.Value { return e.range3 }), rep: true},
		{name: "int", mk: plain(func() starlark.Value { return starlark.MakeInt(1) }), rep: true},
		{name: "float", mk: plain(func() starlark.Value { return starlark.Float(1.5) }), rep: true},
		{name: "struct", mk: plain(e.pool[e.byName["struct"]].mk), rep: true},
		{name: "time", mk: plain(func() starlark.Value { return e.timeV }), rep: true},
		{name: "time:zero", mk: plain(func() starlark.Value { return stime.Time(gotime.Time{}) })},
		{name: "duration", mk: plain(func() starlark.Value { return e.durV }), rep: true},
		{name: "duration:min", mk: plain(func() starlark.Value { return stime.Duration(math.MinInt64) })},
		{name: "closure", mk: plain(func() starlark.Value { return e.clo }), rep: true},
		{name: "builtin", mk: plain(func() starlark.Value { return starlark.Universe["len"] }), rep: true},
		{name: "module:json", mk: plain(func() starlark.Value { return sjson.Module }), rep: true},
		{name: "module:math", mk: plain(func() starlark.Value { return smath.Module })},
		{name: "module:time", mk: plain(func() starlark.Value { return stime.Module })},
	}
	for i := range rs {
		v, done := rs[i].mk()
		rs[i].typ = v.Type()
		done()
	}
	return rs
}

// discover lists every callable (and every non-callable attribute) reachable
// from Universe, the struct constructor and the receivers' AttrNames.
func (e *env) discover(rs []recvVariant) (cs []callable, attrs []attrCase) {
	var unames []string
	for n := range starlark.Universe {
		unames = append(unames, n)
	}
	sort.Strings(unames)
	for _, n := range unames {
		v := starlark.Universe[n]
		if _, ok := v.(starlark.Callable); ok {
			cs = append(cs, callable{fn: n, recv: -1, rep: true, get: func() (starlark.Value, func()) { return v, nodone }})
		}
	}
	cs = append(cs, callable{fn: "struct", recv: -1, rep: true, get: func() (starlark.Value, func()) { return e.structB, nodone }})
	cs = append(cs, e.opCallables()...)
	for ri := range rs {
		ri := ri
		r := rs[ri]
		v, done := r.mk()
		ha, ok := v.(starlark.HasAttrs)
		if !ok {
			done()
			continue
		}
		names := append([]string(nil), ha.AttrNames()...)
		sort.Strings(names)
		prefix := r.typ
		if m, ok := v.(*starlarkstruct.Module); ok {
			prefix = m.Name
		}
		for _, n := range names {
			n := n
			a, err := ha.Attr(n)
			if err != nil || a == nil {
				continue
			}
			if _, ok := a.(starlark.Callable); ok {
				cs = append(cs, callable{fn: prefix + "." + n, recv: ri, rep: r.rep, get: func() (starlark.Value, func()) {
					x, done := rs[ri].mk()
					f, err := x.(starlark.HasAttrs).Attr(n)
					if err != nil || f == nil {
						panic(fmt.Sprintf("attribute %s.%s vanished: %v", rs[ri].name, n, err))
					}
					return f, done
				}})
			} else {
				attrs = append(attrs, attrCase{fn: prefix + "." + n, recv: ri, name: n})
			}
		}
		done()
	}
	return cs, attrs
}

// ---------------------------------------------------------------------------
// keyword-name discovery

// staticKwNames is the fallback candidate list when the source tree of the
// implementation under test cannot be located.
var staticKwNames = []string{"x", "base", "iterable", "key", "reverse", "sep", "start", "stop", "step", "default", "name",
	"year", "month", "day", "hour", "minute", "second", "nanosecond", "location", "format", "sec", "nsec", "prefix", "indent", "pairs", "end", "count", "old", "new", "sub", "chars", "maxsplit", "keepends", "a", "b", "y"}

var kwPairRE = regexp.MustCompile(`"([a-z_][a-z_0-9]*)\?{0,2}",\s*&`)

// candidateKwNames scans the implementation's own source (the directory the
// build's replace directive points at) for `"name?", &var` pairs, which is how
// UnpackArgs callers declare parameter names; new parameters are therefore
// picked up without editing this file.
func candidateKwNames() (names []string, from string) {
	set := map[string]bool{}
	for _, n := range staticKwNames {
		set[n] = true
	}
	from = "static list"
	dir := ""
	if bi, ok := debug.ReadBuildInfo(); ok {
		for _, d := range bi.Deps {
			if d.Path == "go.starlark.net" && d.Replace != nil {
				dir = d.Replace.Path
			}
		}
	}
	if dir != "" {
		nfound := 0
		for _, f := range []string{"starlark/library.go", "lib/json/json.go", "lib/math/math.go", "lib/time/time.go", "starlarkstruct/struct.go", "starlarkstruct/module.go"} {
			b, err := os.ReadFile(dir + "/" + f)
			if err != nil {
				continue
			}
			for _, m := range kwPairRE.FindAllSubmatch(b, -1) {
				if !set[string(m[1])] {
					nfound++
				}
				set[string(m[1])] = true
			}
		}
		from = fmt.Sprintf("static list + %d more from UnpackArgs pairs in %s", nfound, dir)
	}
	for n := range set {
		names = append(names, n)
	}
	sort.Strings(names)
	return names, from
}

const unknownKw = "zz_unknown"
