// Package c02 decides C02: no program and no built-in call can crash the host
// process.
//
// Shape E, run in worker subprocesses.  Three finite families, each enumerated
// exhaustively inside its bound, simplest first:
//
//  1. direct calls: every callable found by reflection (Universe, AttrNames of
//     every receiver variant, module Members) x receiver variants x positional
//     tuples of length 0..2 over the pool of edge values, length 3 over a
//     sub-pool, and keyword lists over the discovered parameter names;
//  2. source texts: every token string up to a length over the token alphabet
//     taken from syntax.Token, under FileOptions vectors, plus a family of
//     recursive constructs at increasing nesting depth up to 64 KiB of source;
//  3. cyclic value graphs: every pointed graph with <= 3 nodes over six node
//     kinds and every edge assignment, under each operation.
//
// Oracle: every case returns (value or error); a Go panic is recovered per case
// and reported; the death of the worker process is attributed to the case that
// was running (fw.Risky) and classified from the runtime's message; the step
// counter is compared with the budget on return.
package c02

import (
	"bytes"
	"encoding/base64"
	"encoding/binary"
	"encoding/json"
	"fmt"
	"hash/fnv"
	"os"
	"os/exec"
	"path/filepath"
	"regexp"
	"runtime"
	"runtime/debug"
	"runtime/pprof"
	"sort"
	"strconv"
	"strings"
	"sync/atomic"
	"syscall"
	"time"

	"go.starlark.net/starlark"

	"verif/internal/fw"
)

// Case is one executable case; it is the replay payload and (JSON-encoded,
// prefixed with the case index) the progress key given to fw.Risky.
type Case struct {
	F string `json:"f"` // call | attr | text | nest | graph

	Fn   string   `json:"fn,omitempty"`
	Recv string   `json:"recv,omitempty"`
	Args []string `json:"args,omitempty"`
	KwN  []string `json:"kwn,omitempty"`
	KwV  []string `json:"kwv,omitempty"`

	Src    []byte `json:"src,omitempty"`        // base64 in JSON: texts contain NUL and non-UTF-8 bytes
	SrcQ   string `json:"src_quoted,omitempty"` // the same text, Go-quoted, for the reader
	Opt    int    `json:"opt,omitempty"`
	Entry  string `json:"entry,omitempty"` // text: "" ExecFileOptions | eval EvalOptions | exprfunc ExprFuncOptions + Call | repl Parse + ExecREPLChunk
	Cons   string `json:"cons,omitempty"`
	Depth  int    `json:"depth,omitempty"`
	Budget int    `json:"budget,omitempty"`

	Kinds string `json:"kinds,omitempty"`
	Edges []int  `json:"edges,omitempty"`
	Op    string `json:"op,omitempty"`
}

const (
	addrSpaceLimit  = uint64(4<<30) + uint64(2560<<20) // 4 GiB small-int reservation + 2.5 GiB
	softMemLimit    = int64(1536 << 20)
	smallStack      = 64 << 20
	watchdogNormal  = 90 * time.Second
	watchdogHeavy   = 3 * time.Second
	flushEvery      = 2048
	stepSlack       = 1
	maxViolKeys     = 400
	exitWatchdog    = 97
	deathMarker     = "C02-DEATH"
	watchdogMarker  = "C02-WATCHDOG"
	budgetSentinel  = "c02: OnMaxSteps kept firing after Cancel"
	onMaxStepsLimit = 1000
)

func init() {
	os.Setenv("TZ", "UTC")
	fw.Register(&fw.Prop{
		ID:    "C02",
		Level: "exploration",
		Rule: "three exhaustively enumerated finite families, each case run against the real implementation in a worker process: " +
			"(1) every callable discovered by reflection over starlark.Universe, AttrNames() of every receiver variant (string, bytes, list, dict, set, struct, time, duration; empty/non-empty/frozen/mid-iteration/self-containing) and the json/math/time module members, " +
			"called with every positional tuple of length 0..2 over the 50-value edge pool, every triple over a 12-value (thorough: 20) sub-pool, and keyword lists (every accepted parameter name found by probing + one unknown name; singles over the full pool with 0..1 positional, pairs and duplicates over the sub-pool); " +
			"(2) every token string of length <= 3 (thorough: <= 4) over the token alphabet derived from syntax.Token (all punctuation, all keywords, one reserved word, ident/int/float/string/bytes literals, newline, indenting newline, backslash-newline, comment, stray 0xff, NUL; all 16 reserved words at length <= 2) under FileOptions all-off and all-on, length <= 3 under all 64 FileOptions vectors, " +
			"plus each of ~55 recursive or repetitive constructs of the nesting family at depths 1,2,3,10,100,1000,10000 and the largest fitting 64 KiB, and its run-time members (json.decode/json.indent of texts nested n deep built by string repetition up to n=10^5 (thorough: 10^6) and one member at 10^7, recursion through def / sorted key / max key up to the 100000-frame limit with a 2*10^7 budget, values nested by a loop then printed, hashed, compared, frozen); each text is parsed, resolved, compiled and executed by starlark.ExecFileOptions with json/math/time/struct predeclared and a 100000-step budget; " +
			"(3) every pointed graph with <= 3 nodes over {list, dict, tuple-with-list, struct-with-list, closure, module} with every edge assignment (all nodes reachable from the root), each built afresh and put through each operation. " +
			"Oracle per case: returns normally (value or error), no recovered Go panic, no death of the worker process (classified from the runtime's own message; out-of-memory from one huge allocation is counted, not alarmed), ExecutionSteps() <= budget+1 on return. " +
			"Non-trivial (counted per executed case, every case is distinct by construction of the enumeration): a call that returned a value or failed with something other than an argument-count/keyword-binding message; a text that the parser accepted (so the resolver, compiler or VM judged it); every nesting-family member and attribute read; a graph case whose graph has a reference cycle. The remaining cases (arity errors, texts rejected by the parser, acyclic graphs) are executed and judged by the same oracle but not counted as non-trivial",
		Run: run, Worker: worker, Replay: replay,
		Assumptions: []string{
			"families 1 and 3 run with the Go maximum stack lowered to 64 MiB (their inputs are at most 3-node graphs and pool values, so finite recursion is a few frames deep and only unbounded recursion can reach either limit); the nesting family keeps the runtime default (1 GB) because there depth is the variable",
			"workers run with RLIMIT_AS = 4 GiB (small-int reservation) + 2.5 GiB and a 1.5 GiB soft Go memory limit; a death whose runtime message is out-of-memory / cannot allocate is outside the claim and only counted",
			"a call that would walk range(2^62) to the end (found by substituting a counting 4096-element sequence) is executed for real only for the representative shape (one positional argument, no keywords, representative receiver) under a 3 s watchdog; the other shapes are listed in notes as skipped; a watchdog kill is recorded as inconclusive, never as a verdict",
			"after a case has killed the process, the remaining cases of its class are not executed: same callable and argument types; same nesting construct at greater depth; same graph operation on a graph whose cycles involve at least the node kinds of the killing graph's cycles (all cases of a class belong to one shard and run in a fixed order, so this is deterministic); the counts are reported in notes; with no deaths nothing is skipped",
		},
		BudgetQuick: 70, BudgetThorough: 1100,
	})
}

// ---------------------------------------------------------------------------
// keys and classes

var digitsRE = regexp.MustCompile(`0x[0-9a-fA-F]+|\d+`)

func normPanic(msg string) string {
	msg = digitsRE.ReplaceAllString(msg, "N")
	msg = strings.ReplaceAll(msg, "\n", " ")
	if len(msg) > 110 {
		msg = msg[:110]
	}
	return msg
}

func optString(opt int) string {
	if opt == 0 {
		return "none"
	}
	if opt == 63 {
		return "all"
	}
	names := []string{"set", "while", "toplevelcontrol", "globalreassign", "loadbindsglobally", "recursion"}
	var on []string
	for i, n := range names {
		if opt&(1<<i) != 0 {
			on = append(on, n)
		}
	}
	return strings.Join(on, "+")
}

// caseKey is the class identity of a case as it appears in violation keys:
// callable + argument types (+ keyword names), text + options, construct +
// depth, graph operation.
func (e *env) caseKey(cs *Case) string {
	switch cs.F {
	case "call":
		var sb strings.Builder
		sb.WriteString("call ")
		sb.WriteString(cs.Fn)
		sb.WriteByte('(')
		for i, a := range cs.Args {
			if i > 0 {
				sb.WriteByte(',')
			}
			sb.WriteString(e.typeOf(a))
		}
		for i, n := range cs.KwN {
			if i > 0 || len(cs.Args) > 0 {
				sb.WriteByte(',')
			}
			sb.WriteString(n)
			sb.WriteByte('=')
			sb.WriteString(e.typeOf(cs.KwV[i]))
		}
		sb.WriteByte(')')
		return sb.String()
	case "attr":
		return "attr " + cs.Fn
	case "text":
		if cs.Entry != "" {
			return "text via " + cs.Entry + " opt=" + optString(cs.Opt) + " " + strconv.Quote(string(cs.Src))
		}
		return "text opt=" + optString(cs.Opt) + " " + strconv.Quote(string(cs.Src))
	case "nest":
		return fmt.Sprintf("nest %s depth=%d", cs.Cons, cs.Depth)
	case "graph":
		return "graph " + cs.Op
	}
	return "?"
}

func (e *env) typeOf(poolName string) string {
	if i, ok := e.byName[poolName]; ok {
		return e.pool[i].typ
	}
	return "?" + poolName
}

// deadClass is the class whose remaining cases are skipped after one of them
// killed the process.
func (e *env) deadClass(cs *Case) string {
	switch cs.F {
	case "call":
		return e.caseKey(cs)
	case "nest":
		return "nest " + cs.Cons
	case "graph":
		return "graph " + cs.Op + " cyc=" + cycleKinds(cs.Kinds, cs.Edges)
	}
	return ""
}

func hashString(s string) uint32 {
	h := fnv.New32a()
	h.Write([]byte(s))
	return h.Sum32()
}

// ---------------------------------------------------------------------------
// coordinator

func run(c *fw.Ctx) *fw.Stats {
	e := newEnv(c.Thorough())
	removeStale(fw.BinDir()+"/c02-dead-*", "c02-dead-")
	removeStale("/dev/shm/c02-progress-*.bin", "c02-progress-")
	deadFile := fmt.Sprintf("%s/c02-dead-%d.txt", fw.BinDir(), os.Getpid())
	os.WriteFile(deadFile, nil, 0o644)
	defer func() {
		os.Remove(deadFile)
		os.Remove(deadFile + ".ladders")
		for i := 0; i < 64; i++ {
			os.Remove(resumeFile(deadFile, i))
		}
	}()

	if b, err := json.Marshal(computeAllLadders()); err == nil {
		os.WriteFile(deadFile+".ladders", b, 0o644)
	}
	nshards := 16
	onCrash := func(ci fw.CrashInfo, s *fw.Stats) {
		kind, sig, msg, rec := parseDeath(ci.Stderr)
		cs, idx := parseProgressKey(rec)
		if os.Getenv("C02_TRACE") != "" {
			fmt.Fprintf(os.Stderr, "c02: %s shard %d died: kind=%s sig=%s rec=%.200q\n", time.Now().Format("15:04:05.000"), ci.Shard, kind, sig, rec)
		}
		if idx >= 0 {
			// the restarted worker skips everything up to and including this case
			os.WriteFile(resumeFile(deadFile, ci.Shard), []byte(strconv.FormatInt(idx, 10)), 0o644)
		}
		if kind == "harness" {
			fw.Fatal("worker %d reported a harness error while running %q: %s", ci.Shard, ci.Key, msg)
		}
		appendDead := func(line string) {
			f, err := os.OpenFile(deadFile, os.O_APPEND|os.O_WRONLY|os.O_CREATE, 0o644)
			if err == nil {
				f.WriteString(line + "\n")
				f.Close()
			}
		}
		if cs == nil {
			// A keyword probe (or an unparsable key): remember it so that the
			// restarted worker does not repeat it, and report it as it is.
			if rec == "" {
				fw.Fatal("worker %d died without a progress record: %s\n%s", ci.Shard, msg, ci.Stderr)
			}
			appendDead(rec)
			if kind != "oom" && kind != "watchdog" && kind != "killed" {
				s.Violate("startup "+rec+": process death "+kind+" "+sig, "process death outside an enumerated case: "+msg, nil)
			}
			return
		}
		s.Count("process_deaths", 1)
		switch kind {
		case "oom":
			s.Count("deaths_out_of_memory_outside_claim", 1)
			s.Outcome(cs.F + ":death-oom(outside claim)")
			s.Count("oom: "+e.caseKey(cs), 1)
		case "watchdog":
			if (cs.F == "text" || cs.F == "nest" && !isRuntimeMember(cs.Cons)) && cs.Budget == 0 {
				// A source text of at most 64 KiB with the default budget of 100000 steps: every
				// member of the text and nesting families returns within seconds; one that is still running after
				// the watchdog interval (90 s) is a computation that the step budget does not bound.
				s.Outcome(cs.F + ":does-not-return")
				s.Violate(e.caseKey(cs)+": does not return", fmt.Sprintf("ExecFileOptions had not returned after %v although the step budget is %d steps (parsing, resolving, compiling, executing or freezing this text takes time that no budget bounds)", watchdogNormal, stepLimit), cs)
				if dc := e.deadClass(cs); dc != "" {
					appendDead(dc) // deeper members of the same construct are not waited for
				}
				return
			}
			s.Count("inconclusive_timeout", 1)
			s.Outcome(cs.F + ":watchdog(inconclusive)")
			s.Inconcl = append(s.Inconcl, fmt.Sprintf("inconclusive_timeout: case %d %s did not return within the watchdog interval; killed, not judged", idx, e.caseKey(cs)))
		case "killed":
			s.Count("deaths_killed_by_signal_outside_claim", 1)
			s.Inconcl = append(s.Inconcl, fmt.Sprintf("worker killed by a signal with no runtime message while running %s (treated like memory exhaustion; not judged)", e.caseKey(cs)))
		default:
			key := e.caseKey(cs) + ": process death " + kind
			if sig != "" {
				key += " in " + sig
			}
			s.Outcome(cs.F + ":death-" + kind)
			what := "process death (" + kind + ") while running this case; runtime said: " + msg
			if cs.F == "graph" {
				what += "; graph program: " + graphSource(cs.Kinds, cs.Edges)
			}
			s.Violate(key, what, cs)
			if dc := e.deadClass(cs); dc != "" {
				appendDead(dc)
			}
		}
	}
	st := c.Sharded(nshards, onCrash, deadFile)
	finish(c, st, nshards)
	return st
}

// isRuntimeMember: members of the nesting family whose work is done by built-ins over
// very long inputs (not bounded by steps by design; see Assumptions).
func isRuntimeMember(cons string) bool {
	return strings.HasPrefix(cons, "json-") || strings.HasPrefix(cons, "value-nest") || strings.HasPrefix(cons, "rec-")
}

// removeStale deletes run-state files left behind by a run that was killed:
// the files carry the pid of their owner, which is no longer alive.
func removeStale(pattern, prefix string) {
	files, _ := filepath.Glob(pattern)
	for _, f := range files {
		base := filepath.Base(f)
		rest := strings.TrimPrefix(base, prefix)
		n := 0
		for n < len(rest) && rest[n] >= '0' && rest[n] <= '9' {
			n++
		}
		pid, err := strconv.Atoi(rest[:n])
		if err != nil {
			continue
		}
		if _, err := os.Stat(fmt.Sprintf("/proc/%d", pid)); err != nil {
			os.Remove(f)
		}
	}
}

// finish turns the merged per-shard bookkeeping counters into Levels, Cut and
// Notes.
func finish(c *fw.Ctx, st *fw.Stats, nshards int) {
	type lv struct {
		name        string
		done, cases int64
		cut         bool
	}
	var names []string
	levels := map[string]*lv{}
	get := func(n string) *lv {
		if levels[n] == nil {
			levels[n] = &lv{name: n}
			names = append(names, n)
		}
		return levels[n]
	}
	var skippedHeavy, oomKeys, skippedDead []string
	for k, v := range st.Counters {
		switch {
		case strings.HasPrefix(k, "level_done:"):
			get(k[len("level_done:"):]).done = v
		case strings.HasPrefix(k, "level_cases:"):
			get(k[len("level_cases:"):]).cases = v
		case strings.HasPrefix(k, "level_cut:"):
			get(k[len("level_cut:"):]).cut = true
		case strings.HasPrefix(k, "skipped_heavy: "):
			skippedHeavy = append(skippedHeavy, fmt.Sprintf("%s x%d", k[len("skipped_heavy: "):], v))
		case strings.HasPrefix(k, "oom: "):
			oomKeys = append(oomKeys, fmt.Sprintf("%s x%d", k[len("oom: "):], v))
		case strings.HasPrefix(k, "skipped_dead: "):
			skippedDead = append(skippedDead, fmt.Sprintf("%s x%d", k[len("skipped_dead: "):], v))
		}
	}
	for k := range st.Counters {
		for _, p := range []string{"level_done:", "level_cases:", "level_cut:", "skipped_heavy: ", "oom: ", "skipped_dead: "} {
			if strings.HasPrefix(k, p) {
				delete(st.Counters, k)
			}
		}
	}
	sort.Strings(names)
	for _, n := range names {
		l := levels[n]
		if l.done >= int64(nshards) && !l.cut {
			st.Levels = append(st.Levels, fmt.Sprintf("%s (%d cases)", n, l.cases))
		} else {
			st.Cut = append(st.Cut, fmt.Sprintf("%s (%d cases run, %d/%d shards finished)", n, l.cases, l.done, nshards))
		}
	}
	note := func(title string, items []string) {
		if len(items) == 0 {
			return
		}
		sort.Strings(items)
		const max = 120
		more := ""
		if len(items) > max {
			more = fmt.Sprintf(" ... and %d more classes", len(items)-max)
			items = items[:max]
		}
		st.Notes = append(st.Notes, title+": "+strings.Join(items, "; ")+more)
	}
	note("not executed (the call would walk range(2^62) to its end; representative shape executed instead; class xN cases)", skippedHeavy)
	note("deaths by out-of-memory from one huge allocation (outside the claim, counted only)", oomKeys)
	note("not executed because an earlier case of the same class killed the process (class xN cases)", skippedDead)
	// De-duplicate identical notes from the shards.
	seen := map[string]bool{}
	var notes []string
	for _, n := range st.Notes {
		if !seen[n] {
			seen[n] = true
			notes = append(notes, n)
		}
	}
	st.Notes = notes
	sort.Strings(st.Inconcl)
}

func resumeFile(deadFile string, shard int) string {
	return fmt.Sprintf("%s.resume%d", deadFile, shard)
}

// parseProgressKey decodes a progress record: "<idx> <json case>" or, for
// token strings, "<idx> T<opt> <raw source bytes>".
func parseProgressKey(key string) (*Case, int64) {
	sp := strings.IndexByte(key, ' ')
	if sp < 0 {
		return nil, -1
	}
	idx, err := strconv.ParseInt(key[:sp], 10, 64)
	if err != nil {
		return nil, -1
	}
	rest := key[sp+1:]
	if strings.HasPrefix(rest, "T") {
		sp2 := strings.IndexByte(rest, ' ')
		if sp2 < 0 {
			return nil, -1
		}
		opt, err := strconv.Atoi(rest[1:sp2])
		if err != nil {
			return nil, -1
		}
		src := rest[sp2+1:]
		return &Case{F: "text", Src: []byte(src), SrcQ: strconv.Quote(src), Opt: opt}, idx
	}
	var cs Case
	if err := json.Unmarshal([]byte(rest), &cs); err != nil {
		return nil, -1
	}
	return &cs, idx
}

// progress is a small file mapped into the worker: the case about to run is
// written there with plain stores, so the outer process can read it after the
// worker has died. (fw.Risky costs two system calls per case, which for 10^7
// token strings is most of the run; it is still called once per incarnation
// so that the frame has a key for the shard.)
type progress struct{ mem []byte }

const progressSize = 1 << 16

func openProgress(path string, create bool) (*progress, error) {
	flags := os.O_RDWR
	if create {
		flags |= os.O_CREATE | os.O_TRUNC
	}
	f, err := os.OpenFile(path, flags, 0o644)
	if err != nil {
		return nil, err
	}
	defer f.Close()
	if create {
		if err := f.Truncate(progressSize); err != nil {
			return nil, err
		}
	}
	mem, err := syscall.Mmap(int(f.Fd()), 0, progressSize, syscall.PROT_READ|syscall.PROT_WRITE, syscall.MAP_SHARED)
	if err != nil {
		return nil, err
	}
	return &progress{mem: mem}, nil
}

func (p *progress) set(b []byte) {
	if p == nil {
		return
	}
	n := len(b)
	if n > progressSize-8 {
		n = progressSize - 8
	}
	binary.LittleEndian.PutUint64(p.mem[:8], 0)
	copy(p.mem[8:], b[:n])
	binary.LittleEndian.PutUint64(p.mem[:8], uint64(n))
}

func (p *progress) get() string {
	n := binary.LittleEndian.Uint64(p.mem[:8])
	if n > progressSize-8 {
		return ""
	}
	return string(p.mem[8 : 8+n])
}

// ---------------------------------------------------------------------------
// outer worker: runs the real worker as a child so that its complete stderr can
// be condensed into one classified line (the frame keeps only 4000 characters).

func worker(c *fw.Ctx) *fw.Stats {
	if os.Getenv("C02_INNER") == "1" {
		return inner(c)
	}
	self, err := os.Executable()
	if err != nil {
		fw.Fatal("os.Executable: %v", err)
	}
	args := append([]string{"worker", c.ID, c.Tier, strconv.Itoa(c.Shard), strconv.Itoa(c.NShards)}, c.Args...)
	dir := fw.BinDir()
	if st, err := os.Stat("/dev/shm"); err == nil && st.IsDir() {
		dir = "/dev/shm"
	}
	ppath := fmt.Sprintf("%s/c02-progress-%d.bin", dir, os.Getpid())
	prog, err := openProgress(ppath, true)
	if err != nil {
		fw.Fatal("progress file: %v", err)
	}
	defer os.Remove(ppath)
	// One key per incarnation for the frame (it needs a non-empty key to
	// restart the shard); the exact case comes from the progress record.
	if r := os.Getenv("VERIF_RESUME"); r != "" {
		c.Risky(r)
	}
	c.Risky(fmt.Sprintf("c02 shard %d incarnation pid %d", c.Shard, os.Getpid()))
	cmd := exec.Command(self, args...)
	cmd.Env = append(os.Environ(), "C02_INNER=1", "C02_PROGRESS="+ppath)
	cmd.Stdout = os.Stdout
	eb := &capBuffer{max: 1 << 20}
	cmd.Stderr = eb
	runErr := cmd.Run()
	if runErr == nil {
		return fw.NewStats()
	}
	kind, sig, msg := classifyDeath(eb.String(), cmd.ProcessState)
	if len(msg) > 1500 {
		msg = msg[:1500]
	}
	rec := prog.get()
	fmt.Fprintf(os.Stderr, "%s kind=%s sig=%s\ncase64=%s\n%s\n", deathMarker, kind, sig, base64.StdEncoding.EncodeToString([]byte(rec)), msg)
	os.Remove(ppath)
	os.Exit(3)
	return nil
}

type capBuffer struct {
	buf bytes.Buffer
	max int
}

func (b *capBuffer) Write(p []byte) (int, error) {
	if room := b.max - b.buf.Len(); room > 0 {
		if len(p) > room {
			b.buf.Write(p[:room])
		} else {
			b.buf.Write(p)
		}
	}
	return len(p), nil
}
func (b *capBuffer) String() string { return b.buf.String() }

var frameRE = regexp.MustCompile(`(?m)^(go\.starlark\.net/[^\s(]+(?:\([^)]*\))?[^\s(]*)\(`)

// classifyDeath reads the Go runtime's own report of why the process died.
func classifyDeath(stderr string, ps *os.ProcessState) (kind, sig, msg string) {
	first := func(marker string) string {
		i := strings.Index(stderr, marker)
		if i < 0 {
			return ""
		}
		s := stderr[i:]
		if j := strings.IndexByte(s, '\n'); j >= 0 {
			s = s[:j]
		}
		return s
	}
	frames := func(n int) []string {
		// function names of the dying goroutine's innermost frames
		body := stderr
		if i := strings.Index(body, "\ngoroutine "); i >= 0 {
			body = body[i:]
		}
		// only the innermost frames: the runtime prints the outermost ones
		// after an "...additional frames elided..." line
		if i := strings.Index(body, "frames elided"); i >= 0 {
			body = body[:i]
		}
		if i := strings.Index(body[1:], "\ngoroutine "); i >= 0 {
			body = body[:i+1]
		}
		var out []string
		for _, m := range frameRE.FindAllStringSubmatch(body, n) {
			out = append(out, strings.TrimPrefix(m[1], "go.starlark.net/"))
		}
		return out
	}
	// the functions of the recursion cycle: those that occur at least three
	// times among the innermost frames (a leaf that happened to be running
	// when the limit was hit occurs once)
	distinct := func(fs []string) string {
		cnt := map[string]int{}
		for _, f := range fs {
			cnt[f]++
		}
		var out []string
		for f, n := range cnt {
			if n >= 3 {
				out = append(out, f)
			}
		}
		sort.Strings(out)
		return strings.Join(out, ",")
	}
	switch {
	case strings.Contains(stderr, "HARNESS-ERROR"):
		return "harness", "", first("HARNESS-ERROR")
	case strings.Contains(stderr, watchdogMarker):
		return "watchdog", "", first(watchdogMarker)
	case strings.Contains(stderr, "fatal error: stack overflow") || strings.Contains(stderr, "goroutine stack exceeds"):
		return "stack-overflow", distinct(frames(100)), first("runtime: goroutine stack exceeds") + " / fatal error: stack overflow; innermost frames: " + strings.Join(head(frames(12), 12), " <- ")
	case strings.Contains(stderr, "out of memory") || strings.Contains(stderr, "cannot allocate memory"):
		m := first("fatal error:")
		if m == "" {
			m = first("out of memory")
		}
		return "oom", "", m + "; innermost frames: " + strings.Join(head(frames(4), 4), " <- ")
	case strings.Contains(stderr, "fatal error:"):
		fs := frames(3)
		return "fatal", normPanic(strings.TrimPrefix(first("fatal error:"), "fatal error: ")) + "@" + strings.Join(head(fs, 1), ""), first("fatal error:") + "; innermost frames: " + strings.Join(fs, " <- ")
	case strings.Contains(stderr, "panic:"):
		fs := frames(3)
		return "unrecovered-panic", normPanic(strings.TrimPrefix(first("panic:"), "panic: ")) + "@" + strings.Join(head(fs, 1), ""), first("panic:") + "; innermost frames: " + strings.Join(fs, " <- ")
	}
	if ps != nil {
		if ws, ok := ps.Sys().(syscall.WaitStatus); ok && ws.Signaled() {
			return "killed", "", "killed by signal " + ws.Signal().String() + " with no runtime message"
		}
	}
	t := strings.TrimSpace(stderr)
	if len(t) > 300 {
		t = t[:300]
	}
	return "other", "", "exit without a runtime message: " + t
}

func head(s []string, n int) []string {
	if len(s) > n {
		return s[:n]
	}
	return s
}

// parseDeath reads the report written by the outer worker.
func parseDeath(stderr string) (kind, sig, msg, rec string) {
	i := strings.Index(stderr, deathMarker)
	if i < 0 {
		kind, sig, msg = classifyDeath(stderr, nil)
		return kind, sig, msg, ""
	}
	lines := strings.SplitN(stderr[i+len(deathMarker):], "\n", 3)
	line := lines[0]
	if k := strings.Index(line, " kind="); k >= 0 {
		line = line[k+6:]
		if m := strings.Index(line, " sig="); m >= 0 {
			kind, sig = line[:m], strings.TrimSpace(line[m+5:])
		} else {
			kind = strings.TrimSpace(line)
		}
	}
	if len(lines) > 1 && strings.HasPrefix(lines[1], "case64=") {
		if b, err := base64.StdEncoding.DecodeString(strings.TrimSpace(lines[1][7:])); err == nil {
			rec = string(b)
		}
	}
	if len(lines) > 2 {
		msg = strings.TrimSpace(lines[2])
	}
	return kind, sig, msg, rec
}

// ---------------------------------------------------------------------------
// inner worker

type wk struct {
	c  *fw.Ctx
	e  *env
	st *fw.Stats

	recvs  []recvVariant
	calls  []callable
	attrs  []attrCase
	kwFrom string

	idx       int64 // global case index (identical in every shard)
	resumeIdx int64
	executed  int64
	sinceFlsh int
	stopped   bool
	level     string
	dead      map[string]bool
	violKeys  map[string]bool
	replaying bool
	prog      *progress
	keyBuf    []byte

	// watchdog
	caseSeq   atomic.Int64
	caseStart atomic.Int64
	caseLimit atomic.Int64
	caseIdx   atomic.Int64
}

func limitResources() {
	lim := syscall.Rlimit{Cur: addrSpaceLimit, Max: addrSpaceLimit}
	syscall.Setrlimit(syscall.RLIMIT_AS, &lim)
	soft := softMemLimit
	if v, err := strconv.ParseInt(os.Getenv("C02_SOFTMEM_MB"), 10, 64); err == nil && v > 0 { // development aid
		soft = v << 20
	}
	debug.SetMemoryLimit(soft)
	// Cases allocate little and keep nothing: without this the collector would
	// run every few milliseconds on a 4 MB heap.
	debug.SetGCPercent(800)
}

func inner(c *fw.Ctx) *fw.Stats {
	// 16 workers share 16 cores: one P for the enumeration, one for the collector.
	runtime.GOMAXPROCS(2)
	limitResources()
	w := &wk{c: c, e: newEnv(c.Thorough()), st: fw.NewStats(), dead: map[string]bool{}, violKeys: map[string]bool{}, resumeIdx: -1}
	if p := os.Getenv("C02_PROGRESS"); p != "" {
		pr, err := openProgress(p, false)
		if err != nil {
			fw.Fatal("progress file: %v", err)
		}
		w.prog = pr
	}
	w.prog.set([]byte("startup"))
	if len(c.Args) > 0 {
		if b, err := os.ReadFile(resumeFile(c.Args[0], c.Shard)); err == nil {
			if idx, err := strconv.ParseInt(strings.TrimSpace(string(b)), 10, 64); err == nil {
				w.resumeIdx = idx
			}
		}
	}
	if len(c.Args) > 0 {
		if b, err := os.ReadFile(c.Args[0] + ".ladders"); err == nil {
			json.Unmarshal(b, &ladderCache)
		}
		if b, err := os.ReadFile(c.Args[0]); err == nil {
			for _, l := range strings.Split(string(b), "\n") {
				if l != "" {
					w.dead[l] = true
				}
			}
		}
	}
	w.caseLimit.Store(int64(watchdogNormal))
	w.caseStart.Store(time.Now().UnixNano())
	w.caseIdx.Store(-1)
	go w.watchdog()
	if pf := os.Getenv("C02_CPUPROFILE"); pf != "" { // development aid
		if f, err := os.Create(pf); err == nil {
			pprof.StartCPUProfile(f)
			defer pprof.StopCPUProfile()
		}
	}
	w.setup()
	w.runLevels()
	return w.st
}

func (w *wk) watchdog() {
	for {
		time.Sleep(200 * time.Millisecond)
		start := w.caseStart.Load()
		if start == 0 {
			continue
		}
		if time.Duration(time.Now().UnixNano()-start) > time.Duration(w.caseLimit.Load()) {
			fmt.Fprintf(os.Stderr, "%s case=%v limit=%v\n", watchdogMarker, w.caseIdx.Load(), time.Duration(w.caseLimit.Load()))
			os.Exit(exitWatchdog)
		}
	}
}

func (w *wk) setup() {
	w.recvs = w.e.receivers()
	w.calls, w.attrs = w.e.discover(w.recvs)
	cands, from := candidateKwNames()
	w.kwFrom = from
	// probe each distinct callable name once
	found := map[string]*callable{}
	for i := range w.calls {
		cl := &w.calls[i]
		if prev, ok := found[cl.fn]; ok {
			cl.kw, cl.anyKw = prev.kw, prev.anyKw
			continue
		}
		found[cl.fn] = cl
		var acc []string
		for _, n := range cands {
			pk := "P|" + cl.fn + "|" + n
			w.prog.set([]byte(pk))
			if w.dead[pk] {
				acc = append(acc, n) // this probe killed the process before: meet it again as a case
				continue
			}
			if w.probeKwAccepted(cl, n) {
				acc = append(acc, n)
			}
		}
		pk := "P|" + cl.fn + "|" + unknownKw
		w.prog.set([]byte(pk))
		if w.dead[pk] || w.probeKwAccepted(cl, unknownKw) || len(acc) > 12 {
			cl.anyKw = true
			acc = []string{"a"}
		}
		cl.kw = acc
	}
	if w.c.Shard == 0 && w.resumeIdx < 0 {
		var withKw []string
		for _, cl := range found {
			if len(cl.kw) > 0 && !cl.anyKw {
				withKw = append(withKw, cl.fn+"("+strings.Join(cl.kw, ",")+")")
			}
		}
		sort.Strings(withKw)
		w.st.Notes = append(w.st.Notes,
			fmt.Sprintf("discovered %d bound callables (%d distinct names) and %d non-callable attributes over %d receiver variants; pool %d values, sub-pool %d; keyword candidates: %s",
				len(w.calls), len(found), len(w.attrs), len(w.recvs), len(w.e.pool), len(w.e.sub), from),
			"keyword parameters accepted (found by probing): "+strings.Join(withKw, " "))
		w.st.Count("callables_bound", int64(len(w.calls)))
		w.st.Count("callables_distinct_names", int64(len(found)))
	}
}

// probeKwAccepted calls the callable with name=None and 0, 1 and 2 positional
// None arguments (so that arity checks made before the keyword check do not
// hide it); the name counts as accepted unless one of the calls complains
// about a keyword argument.
func (w *wk) probeKwAccepted(cl *callable, name string) (accepted bool) {
	defer func() {
		if r := recover(); r != nil {
			accepted = true // let the enumeration meet (and report) it as a case
		}
	}()
	for npos := 0; npos <= 2; npos++ {
		fn, done := cl.get()
		th := newThread(stepLimit, false)
		args := make(starlark.Tuple, npos)
		for i := range args {
			args[i] = starlark.None
		}
		_, err := starlark.Call(th, fn, args, []starlark.Tuple{{starlark.String(name), starlark.None}})
		done()
		if err != nil && (strings.Contains(err.Error(), "unexpected keyword") || strings.Contains(err.Error(), "not accept keyword")) {
			return false
		}
	}
	return true
}

// take advances the global case index and reports whether this worker has to
// execute the case (it owns it, it is not before the resume point, and the
// level has not been cut).
func (w *wk) take(owner uint32) bool {
	i := w.idx
	w.idx++
	if w.stopped || int(owner%uint32(w.c.NShards)) != w.c.Shard || i <= w.resumeIdx {
		return false
	}
	return true
}

// skipBlock jumps over a block of n consecutive cases when none of them has
// to run (the level was cut, or a restarted worker is still before its resume
// point).
func (w *wk) skipBlock(n int64) bool {
	if w.stopped || w.idx+n-1 <= w.resumeIdx {
		w.idx += n
		return true
	}
	return false
}

func (w *wk) takeIdx() bool { return w.take(uint32(w.idx % int64(w.c.NShards))) }

// begin announces the case to the frame (so that a death is attributed to it)
// and arms the watchdog. It returns false if the case must not run.
func (w *wk) begin(cs *Case) bool {
	kb := strconv.AppendInt(w.keyBuf[:0], w.idx-1, 10)
	kb = append(kb, ' ')
	if cs.F == "text" {
		kb = append(kb, 'T')
		kb = strconv.AppendInt(kb, int64(cs.Opt), 10)
		kb = append(kb, ' ')
		kb = append(kb, cs.Src...)
	} else {
		b, _ := json.Marshal(cs)
		kb = append(kb, b...)
	}
	w.keyBuf = kb
	w.prog.set(kb)
	if len(w.dead) > 0 {
		if dc := w.e.deadClass(cs); dc != "" && (w.dead[dc] || w.deadGraph(cs)) {
			if cs.F == "graph" {
				dc = "graph " + cs.Op + " (cycle kinds include those of a graph that killed the process)"
			}
			w.st.Count("skipped_dead: "+dc, 1)
			w.st.Count("cases_skipped_after_death_in_class", 1)
			return false
		}
	}
	w.executed++
	w.sinceFlsh++
	if w.sinceFlsh >= flushEvery {
		w.flush()
		if w.c.Expired() {
			w.stopped = true
			w.st.Count("level_cut:"+w.level, 1)
		}
	}
	w.caseIdx.Store(w.idx - 1)
	w.caseStart.Store(time.Now().UnixNano())
	w.st.Evals++
	w.st.Count("level_cases:"+w.level, 1)
	return true
}

// deadGraph reports whether a graph whose cycles involve a subset of this
// graph's cycle kinds has already killed the process under the same operation.
func (w *wk) deadGraph(cs *Case) bool {
	if cs.F != "graph" {
		return false
	}
	prefix := "graph " + cs.Op + " cyc="
	mine := cycleKinds(cs.Kinds, cs.Edges)
	for d := range w.dead {
		if !strings.HasPrefix(d, prefix) {
			continue
		}
		sub := true
		for _, k := range d[len(prefix):] {
			if !strings.ContainsRune(mine, k) {
				sub = false
			}
		}
		if sub {
			return true
		}
	}
	return false
}

func (w *wk) end() {
	w.caseStart.Store(0)
	if w.caseLimit.Load() != int64(watchdogNormal) {
		w.caseLimit.Store(int64(watchdogNormal))
	}
}

func (w *wk) flush() {
	if w.replaying {
		return
	}
	fw.EmitPartial(w.st)
	w.st = fw.NewStats()
	w.sinceFlsh = 0
}

func (w *wk) violate(cs *Case, failure, what string) {
	key := w.e.caseKey(cs) + ": " + failure
	if w.violKeys[key] {
		w.st.Count("violating_cases_beyond_first_per_key", 1)
		return
	}
	if len(w.violKeys) >= maxViolKeys {
		w.st.Count("violation_keys_dropped_over_cap", 1)
		return
	}
	w.violKeys[key] = true
	if cs.F == "text" && cs.SrcQ == "" {
		cs.SrcQ = strconv.Quote(string(cs.Src))
	}
	w.st.Violate(key, what, cs)
	w.flush()
}

func (w *wk) startLevel(name string) {
	w.level = name
}

func (w *wk) endLevel() {
	if w.idx-1 < w.resumeIdx {
		return // finished (and reported) by an earlier incarnation of this shard
	}
	if !w.stopped {
		w.st.Count("level_done:"+w.level, 1)
	} else {
		w.st.Count("level_cut:"+w.level, 1)
	}
	w.flush()
}

func (w *wk) runLevels() {
	thorough := w.c.Thorough()
	steps := []struct {
		name string
		f    func()
	}{
		{"L1a calls: 0 arguments + attribute reads", func() { w.attrLevel(); w.callLevel(0) }},
		{"L1b texts: token strings of length 0..1 (full alphabet) x 64 option vectors", func() { w.textLevel(1, true, allOpts()) }},
		{"L1c nesting family: depths 1,2,3", func() { w.nestLevel(0, 3) }},
		{"L1d graphs: 1 node", func() { w.graphLevel(1) }},
		{"L2a calls: 1 argument (full pool)", func() { w.callLevel(1) }},
		{"L2b texts: length 2 (full alphabet incl. all reserved words) x 64 option vectors", func() { w.textLevel(2, true, allOpts()) }},
		{"L2c nesting family: depths 10..100 (decades and both sides of powers of two)", func() { w.nestLevel(4, 100) }},
		{"L2d graphs: 2 nodes", func() { w.graphLevel(2) }},
		{"L3a calls: 2 arguments (full pool squared)", func() { w.callLevel(2) }},
		{"L3b calls: keyword lists", func() { w.kwLevel() }},
		{"L3c texts: length 3 x options {none, all}", func() { w.textLevel(3, false, []int{0, 63}) }},
		{"L3c2 texts: 59 valid texts over every group of productions, each with every single-token deletion, duplication, swap, replacement and insertion (full alphabet) x options {none, all}", func() { w.mutationLevel([]int{0, 63}, []string{""}) }},
		{"L3c3 texts: the length-3 strings and the mutations of L3c2 through the other entry points (EvalOptions, ExprFuncOptions + Call, Parse + ExecREPLChunk) and the other kinds of source ([]byte, io.Reader, FilePortion at position zero and at 1000:70) x options {all}", func() {
			w.textLevelVia(3, false, []int{63}, otherEntries)
			w.mutationLevel([]int{63}, otherEntries)
		}},
		{"L3d nesting family: depths 101..1000 (decades and both sides of powers of two)", func() { w.nestLevel(101, 1000) }},
		{"L4a calls: 3 arguments (sub-pool cubed)", func() { w.callLevel(3) }},
		{"L4b graphs: 3 nodes", func() { w.graphLevel(3) }},
		{"L4c nesting family: depths above 1000 (decades, both sides of powers of two, the largest fitting 64 KiB); runtime recursion", func() { w.nestLevel(1001, 1<<30) }},
		{"L4d texts: length 3 x the remaining 62 option vectors", func() { w.textLevel(3, false, midOpts()) }},
	}
	if thorough {
		steps = append(steps, struct {
			name string
			f    func()
		}{"L5 texts: length 4 x options {none, all}", func() { w.textLevel(4, false, []int{0, 63}) }})
	}
	only := os.Getenv("C02_ONLY") // development aid: run only the levels whose name contains one of these (comma-separated)
	for _, s := range steps {
		if only != "" {
			match := false
			for _, o := range strings.Split(only, ",") {
				match = match || strings.Contains(s.name, o)
			}
			if !match {
				w.st.Count("level_cut:"+s.name, 1)
				continue
			}
		}
		w.startLevel(s.name)
		if !w.stopped && w.c.Expired() {
			w.stopped = true
		}
		t0 := time.Now()
		s.f()
		if os.Getenv("C02_TRACE") != "" {
			w.st.Count("trace_level_cpu_ms:"+s.name, time.Since(t0).Milliseconds())
		}
		w.endLevel()
	}
}

func allOpts() []int {
	var o []int
	for i := 0; i < 64; i++ {
		o = append(o, i)
	}
	return o
}

func midOpts() []int {
	var o []int
	for i := 1; i < 63; i++ {
		o = append(o, i)
	}
	return o
}

func newThread(budget int, callback bool) *starlark.Thread {
	th := &starlark.Thread{Name: "c02", Print: discardPrint, Load: loadStub}
	th.SetMaxExecutionSteps(uint64(budget))
	if callback {
		// Same behaviour as the default (Cancel), plus a count of how often the
		// limit test fires: if the interpreter keeps executing after the
		// cancellation, the harness aborts the run with a sentinel panic
		// instead of waiting for ever.
		n := 0
		th.OnMaxSteps = func(t *starlark.Thread) {
			n++
			t.Cancel("too many steps")
			if n > onMaxStepsLimit {
				panic(budgetSentinel)
			}
		}
	}
	return th
}

// guard runs f, converting a Go panic into a description.
func guard(f func()) (panicMsg, where string) {
	defer func() {
		if r := recover(); r != nil {
			panicMsg = fmt.Sprint(r)
			if panicMsg == "" {
				panicMsg = "(empty panic value)"
			}
			where = panicSite()
		}
	}()
	f()
	return "", ""
}

// panicSite names the innermost go.starlark.net function on the panicking stack.
func panicSite() string {
	pcs := make([]uintptr, 64)
	n := runtime.Callers(3, pcs)
	fr := runtime.CallersFrames(pcs[:n])
	for {
		f, more := fr.Next()
		if strings.HasPrefix(f.Function, "go.starlark.net/") {
			return fmt.Sprintf("%s (%s:%d)", strings.TrimPrefix(f.Function, "go.starlark.net/"), shortFile(f.File), f.Line)
		}
		if !more {
			return ""
		}
	}
}

func shortFile(f string) string {
	parts := strings.Split(f, "/")
	if len(parts) > 2 {
		parts = parts[len(parts)-2:]
	}
	return strings.Join(parts, "/")
}

// ---------------------------------------------------------------------------
// replay

func replay(c *fw.Ctx, raw json.RawMessage) []fw.Viol {
	var cs Case
	if err := json.Unmarshal(raw, &cs); err != nil {
		fw.Fatal("bad case: %v", err)
	}
	limitResources()
	w := &wk{c: c, e: newEnv(true), st: fw.NewStats(), dead: map[string]bool{}, violKeys: map[string]bool{}, resumeIdx: -1}
	w.caseLimit.Store(int64(watchdogNormal))
	w.recvs = w.e.receivers()
	w.calls, w.attrs = w.e.discover(w.recvs)
	w.level = "replay"
	w.replaying = true
	done := make(chan bool)
	go func() {
		switch cs.F {
		case "call":
			w.execCallCase(&cs, true)
		case "attr":
			w.execAttrCase(&cs)
		case "text":
			w.execText(&cs)
		case "nest":
			w.execNest(&cs)
		case "graph":
			w.execGraph(&cs)
		default:
			fw.Fatal("unknown case family %q", cs.F)
		}
		close(done)
	}()
	if (cs.F == "text" || cs.F == "nest" && !isRuntimeMember(cs.Cons)) && cs.Budget == 0 {
		// the same criterion as in the search: see onCrash, case "watchdog"
		select {
		case <-done:
		case <-time.After(watchdogNormal):
			return []fw.Viol{{Key: w.e.caseKey(&cs) + ": does not return", What: fmt.Sprintf("had not returned after %v", watchdogNormal)}}
		}
	} else {
		<-done
	}
	return w.st.Viols
}
