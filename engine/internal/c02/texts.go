package c02

// Family 2: source texts (token strings and the nesting family).

import (
	"fmt"
	"runtime/debug"
	"sort"
	"strconv"
	"strings"

	sjson "go.starlark.net/lib/json"
	smath "go.starlark.net/lib/math"
	stime "go.starlark.net/lib/time"
	"go.starlark.net/resolve"
	"go.starlark.net/starlark"
	"go.starlark.net/starlarkstruct"
	"go.starlark.net/syntax"

	"verif/internal/fw"
)

const defaultMaxStack = 1000000000

func fileOptions(opt int) *syntax.FileOptions {
	return &syntax.FileOptions{
		Set:               opt&1 != 0,
		While:             opt&2 != 0,
		TopLevelControl:   opt&4 != 0,
		GlobalReassign:    opt&8 != 0,
		LoadBindsGlobally: opt&16 != 0,
		Recursion:         opt&32 != 0,
	}
}

// alphabet derives the token alphabet from syntax.Token: every punctuation
// and keyword token between PLUS and YIELD by its own spelling, plus literals
// and layout tokens. reduced keeps only one reserved word.
func alphabet(reduced bool) []string {
	var a []string
	for t := syntax.PLUS; t <= syntax.YIELD; t++ {
		if t == syntax.NOT_IN {
			continue // synthesised by the parser from "not" "in"
		}
		if reduced && t > syntax.AS {
			continue
		}
		a = append(a, t.String())
	}
	a = append(a,
		"x",    // identifier (predeclared as a list, assignable)
		"1",    // int
		"1.5",  // float
		`"s"`,  // string
		`b"b"`, // bytes
		"\n",   // newline
		"\n  ", // newline + indentation
		"\\\n", // line continuation
		"#c\n", // comment
		"\xff", // stray non-ASCII byte
		"\x00", // NUL
	)
	return a
}

func joinTokens(al []string, toks []int) string {
	var sb strings.Builder
	for i, t := range toks {
		if i > 0 {
			s := sb.String()
			if c := s[len(s)-1]; c != '\n' && c != ' ' {
				sb.WriteByte(' ')
			}
		}
		sb.WriteString(al[t])
	}
	return sb.String()
}

// textLevel enumerates every token string of exactly length n (n == 1 also
// includes the empty text) under every option vector in opts.
func (w *wk) textLevel(n int, full bool, opts []int) { w.textLevelVia(n, full, opts, []string{""}) }

var otherEntries = []string{"eval", "exprfunc", "repl", "bytes", "reader", "portion0", "portion"}

func (w *wk) textLevelVia(n int, full bool, opts []int, entries []string) {
	al := alphabet(!full)
	if w.c.Shard == 0 && w.resumeIdx < 0 {
		w.st.Count(fmt.Sprintf("text_alphabet_size_at_length_%d", n), int64(len(al)))
	}
	debug.SetMaxStack(defaultMaxStack)
	total := int64(1)
	for i := 0; i < n; i++ {
		total *= int64(len(al))
	}
	if n == 1 {
		total++
	}
	total *= int64(len(opts) * len(entries))
	if w.skipBlock(total) {
		return
	}
	toks := make([]int, n)
	emit := func(k int) {
		for _, o := range opts {
			for _, en := range entries {
				if !w.takeIdx() {
					continue
				}
				cs := &Case{F: "text", Src: []byte(joinTokens(al, toks[:k])), Opt: o, Entry: en}
				if !w.begin(cs) {
					continue
				}
				w.execText(cs)
				w.end()
			}
		}
	}
	if n == 1 {
		emit(0)
	}
	var rec func(pos int)
	rec = func(pos int) {
		if pos == n {
			emit(n)
			return
		}
		for t := range al {
			toks[pos] = t
			rec(pos + 1)
		}
	}
	rec(0)
}

func (w *wk) predeclared() starlark.StringDict {
	selfList := starlark.NewList([]starlark.Value{starlark.MakeInt(0)})
	selfList.SetIndex(0, selfList)
	selfMod := &starlarkstruct.Module{Name: "m", Members: starlark.StringDict{}}
	selfMod.Members["a"] = selfMod
	return starlark.StringDict{
		"json":    sjson.Module,
		"math":    smath.Module,
		"time":    stime.Module,
		"struct":  w.e.structB,
		"x":       starlark.NewList([]starlark.Value{starlark.MakeInt(0), starlark.MakeInt(1)}),
		"y":       selfList, // y[0] is y
		"m":       selfMod,  // m.a is m
		"selfret": w.e.selfret,
	}
}

func entryName(e string) string {
	switch e {
	case "eval":
		return "EvalOptions"
	case "exprfunc":
		return "ExprFuncOptions + Call"
	case "repl":
		return "FileOptions.Parse + ExecREPLChunk"
	case "bytes", "reader", "portion0", "portion":
		return "ExecFileOptions, source given as " + e
	}
	return "ExecFileOptions"
}

// runSource parses, resolves, compiles and executes src and judges the ending.
func (w *wk) runSource(cs *Case, src string, budget int, outcomePrefix string) {
	callback := cs.Opt&1 != 0
	th := newThread(budget, callback)
	var err error
	pm, where := guard(func() {
		switch cs.Entry {
		case "":
			_, err = starlark.ExecFileOptions(fileOptions(cs.Opt), th, "c02.star", src, w.predeclared())
		case "bytes": // the source handed over as a []byte
			_, err = starlark.ExecFileOptions(fileOptions(cs.Opt), th, "c02.star", []byte(src), w.predeclared())
		case "reader": // as an io.Reader
			_, err = starlark.ExecFileOptions(fileOptions(cs.Opt), th, "c02.star", strings.NewReader(src), w.predeclared())
		case "portion0": // as a portion of a larger file whose position was left zero
			_, err = starlark.ExecFileOptions(fileOptions(cs.Opt), th, "c02.star", syntax.FilePortion{Content: []byte(src)}, w.predeclared())
		case "portion": // as a portion that starts at line 1000, column 70
			_, err = starlark.ExecFileOptions(fileOptions(cs.Opt), th, "c02.star", syntax.FilePortion{Content: []byte(src), FirstLine: 1000, FirstCol: 70}, w.predeclared())
		case "eval":
			_, err = starlark.EvalOptions(fileOptions(cs.Opt), th, "c02.star", src, w.predeclared())
		case "exprfunc":
			var fn *starlark.Function
			fn, err = starlark.ExprFuncOptions(fileOptions(cs.Opt), "c02.star", src, w.predeclared())
			if err == nil {
				_, err = starlark.Call(th, fn, nil, nil)
			}
		case "repl":
			var f *syntax.File
			f, err = fileOptions(cs.Opt).Parse("c02.star", src, 0)
			if err == nil {
				err = starlark.ExecREPLChunk(f, th, w.predeclared())
			}
		default:
			fw.Fatal("unknown entry point %q", cs.Entry)
		}
	})
	steps := th.ExecutionSteps()
	if pm != "" {
		w.st.Outcome(outcomePrefix + ":panic")
		if strings.Contains(pm, budgetSentinel) {
			w.violate(cs, "ran past step budget", fmt.Sprintf("the interpreter kept executing after the step limit cancelled the thread: the limit test fired %d more times (budget %d, ExecutionSteps()=%d)", onMaxStepsLimit, budget, steps))
			return
		}
		w.violate(cs, "panic "+normPanic(pm), fmt.Sprintf("Go panic escaped from the entry point ("+entryName(cs.Entry)+"): %s (innermost starlark-go frame: %s)", pm, where))
		return
	}
	if steps > uint64(budget+stepSlack) {
		w.violate(cs, "ran past step budget", fmt.Sprintf("ExecutionSteps()=%d on return, budget %d", steps, budget))
	}
	stage := "ok"
	switch e := err.(type) {
	case nil:
		w.st.Count("texts_executed_to_completion", 1)
	case syntax.Error:
		stage = "syntax-error"
		if strings.Contains(e.Msg, "internal error") {
			stage = "syntax-error(internal error: a panic converted by the scanner)"
			w.st.Count("texts_scanner_internal_error", 1)
			w.st.Sample(map[string]any{"scanner_internal_error": cs, "msg": e.Msg})
		}
	case resolve.ErrorList:
		stage = "resolve-error"
		w.st.Count("texts_parsed", 1)
	case *starlark.EvalError:
		stage = "exec-error"
		w.st.Count("texts_parsed", 1)
		w.st.Count("texts_compiled_and_started", 1)
		if steps >= uint64(budget) {
			stage = "exec-error(step budget)"
			w.st.Count("texts_stopped_by_step_budget", 1)
		}
	default:
		stage = fmt.Sprintf("other-error(%T)", err)
	}
	if err == nil {
		w.st.Count("texts_parsed", 1)
		w.st.Count("texts_compiled_and_started", 1)
	}
	w.st.Outcome(outcomePrefix + ":" + stage)
	if _, rejectedByParser := err.(syntax.Error); !rejectedByParser || outcomePrefix != "text" {
		w.st.Nontrivial++
	}
}

func (w *wk) execText(cs *Case) {
	debug.SetMaxStack(defaultMaxStack)
	w.runSource(cs, string(cs.Src), stepLimit, "text")
	if w.executed%200003 == 7 {
		w.st.Sample(map[string]any{"text": strconv.Quote(string(cs.Src)), "opt": optString(cs.Opt)})
	}
}

// ---------------------------------------------------------------------------
// nesting family

type nestCons struct {
	name   string
	gen    func(d int) string
	depths []int // nil: the standard ladder
	opts   []int // nil: {none, all}
	budget int   // 0: stepLimit
}

func rep(s string, n int) string { return strings.Repeat(s, n) }

func blockNest(header, innermost string) func(d int) string {
	return func(d int) string {
		var sb strings.Builder
		for i := 0; i < d; i++ {
			sb.WriteString(rep(" ", i))
			sb.WriteString(header)
			sb.WriteByte('\n')
		}
		sb.WriteString(rep(" ", d))
		sb.WriteString(innermost)
		sb.WriteByte('\n')
		return sb.String()
	}
}

// nestFamily lists the constructs. The quick tier stops the ladders of the
// run-time recursion members at 10^5 (one 10^7 member shows what a short
// program can do to the Go stack); thorough adds 10^6 (the 10^7 member stays
// the only one of its size, so that one root cause has one key).
func nestFamily(thorough bool) []nestCons {
	big := []int{1, 2, 3, 10, 100, 1000, 10000, 100000}
	bigTop := append(append([]int{}, big...), 10000000)
	rec := []int{1, 10, 1000, 100000}
	deep := []int{100000}
	if thorough {
		big = append(big, 1000000)
		bigTop = append(append([]int{}, big...), 10000000)
		rec = append(rec, 1000000)
		deep = append(deep, 1000000)
	}
	onlyAll := []int{63}
	return []nestCons{
		{name: "parens", gen: func(d int) string { return rep("(", d) + "1" + rep(")", d) }},
		{name: "list", gen: func(d int) string { return rep("[", d) + rep("]", d) }},
		{name: "dict", gen: func(d int) string { return rep("{1:", d) + "1" + rep("}", d) }},
		{name: "tuple", gen: func(d int) string { return rep("(", d) + "1" + rep(",)", d) }},
		{name: "call", gen: func(d int) string { return rep("str(", d) + "1" + rep(")", d) }},
		{name: "call-chain", gen: func(d int) string { return "selfret" + rep("()", d) }},
		{name: "index-nested", gen: func(d int) string { return rep("x[", d) + "0" + rep("]", d) }},
		{name: "index-chain", gen: func(d int) string { return "y" + rep("[0]", d) }},
		{name: "slice-chain", gen: func(d int) string { return "x" + rep("[:]", d) }},
		{name: "dot-chain", gen: func(d int) string { return "m" + rep(".a", d) }},
		{name: "unary-minus", gen: func(d int) string { return rep("-", d) + "1" }},
		{name: "unary-tilde", gen: func(d int) string { return rep("~", d) + "1" }},
		{name: "not", gen: func(d int) string { return rep("not ", d) + "1" }},
		{name: "lambda", gen: func(d int) string { return "f=" + rep("lambda:", d) + "1" }},
		{name: "lambda-default", gen: func(d int) string { return "f=" + rep("lambda a=", d) + "1" + rep(":1", d) }},
		{name: "cond-else-chain", gen: func(d int) string { return rep("1 if 0 else ", d) + "1" }},
		{name: "cond-in-cond", gen: func(d int) string { return rep("1 if ", d) + "1" + rep(" else 1", d) }},
		{name: "binop-left", gen: func(d int) string { return "1" + rep("+1", d) }},
		{name: "binop-right", gen: func(d int) string { return rep("1+(", d) + "1" + rep(")", d) }},
		{name: "and-chain", gen: func(d int) string { return "1" + rep(" and 1", d) }},
		{name: "or-not-mix", gen: func(d int) string { return rep("0 or not (", d) + "1" + rep(")", d) }},
		{name: "strcat-chain", gen: func(d int) string { return `"a"` + rep(`+"a"`, d) }},
		{name: "listcat-chain", gen: func(d int) string { return "[1]" + rep("+[1]", d) }},
		{name: "percent-chain", gen: func(d int) string { return `"%s"` + rep(`%"%s"`, d) }},
		{name: "comp-clauses", gen: func(d int) string { return "[1 " + rep("for a in [1] ", d) + "]" }},
		{name: "comp-if-clauses", gen: func(d int) string { return "[1 for a in [1] " + rep("if 1 ", d) + "]" }},
		{name: "comp-nested", gen: func(d int) string { return rep("[a for a in ", d) + "[1]" + rep("]", d) }},
		{name: "dictcomp-nested", gen: func(d int) string { return rep("{1:a for a in [", d) + "1" + rep("]}", d) }},
		{name: "assign-target-nest", gen: func(d int) string { return rep("[", d) + "a" + rep("]", d) + "=" + rep("[", d) + "1" + rep("]", d) }},
		{name: "args-positional-many", gen: func(d int) string { return "str(" + rep("1,", d) + ")" }},
		{name: "args-named-many", gen: func(d int) string {
			var sb strings.Builder
			sb.WriteString("struct(")
			for i := 0; i < d; i++ {
				fmt.Fprintf(&sb, "a%d=1,", i)
			}
			sb.WriteString(")")
			return sb.String()
		}},
		{name: "params-many", gen: func(d int) string {
			var sb strings.Builder
			sb.WriteString("def f(")
			for i := 0; i < d; i++ {
				fmt.Fprintf(&sb, "a%d=1,", i)
			}
			sb.WriteString("): pass\nf()")
			return sb.String()
		}},
		{name: "list-elems-many", gen: func(d int) string { return "[" + rep("1,", d) + "]" }},
		{name: "dict-entries-many", gen: func(d int) string { return "{" + rep("1:1,", d) + "}" }},
		{name: "stmts-many", gen: func(d int) string { return rep("a=1\n", d) }},
		{name: "semicolons-many", gen: func(d int) string { return rep("a=1;", d) }},
		{name: "def-nest", gen: blockNest("def f():", "pass")},
		{name: "def-nest-called", gen: func(d int) string {
			var sb strings.Builder
			for i := 0; i < d; i++ {
				sb.WriteString(rep(" ", i) + "def f():\n")
			}
			sb.WriteString(rep(" ", d) + "pass\n")
			for i := d - 1; i >= 1; i-- {
				sb.WriteString(rep(" ", i) + "f()\n")
			}
			sb.WriteString("f()\n")
			return sb.String()
		}},
		{name: "closure-capture-nest", gen: func(d int) string {
			// each level captures the variable of the outermost function
			var sb strings.Builder
			sb.WriteString("def f0(v):\n")
			for i := 1; i < d; i++ {
				fmt.Fprintf(&sb, "%sdef f%d():\n", rep(" ", i), i)
			}
			sb.WriteString(rep(" ", d) + "return v\n")
			for i := d - 1; i >= 1; i-- {
				fmt.Fprintf(&sb, "%sreturn f%d\n", rep(" ", i), i)
			}
			sb.WriteString("g=f0([1])\n")
			return sb.String()
		}},
		{name: "closure-clique", gen: func(d int) string {
			// d closures of one function, each returning all of them: every one reaches every other
			var sb strings.Builder
			sb.WriteString("def outer():\n")
			for i := 0; i < d; i++ {
				fmt.Fprintf(&sb, " def f%d():\n  return (", i)
				for j := 0; j < d; j++ {
					fmt.Fprintf(&sb, "f%d,", j)
				}
				sb.WriteString(")\n")
			}
			sb.WriteString(" return f0\ng = outer()\n")
			return sb.String()
		}},
		{name: "closure-diamonds", gen: func(d int) string {
			// f_i refers to f_(i-1) twice (a default value and a captured variable): 2^d paths from the last closure to the first
			var sb strings.Builder
			sb.WriteString("def outer():\n f0 = lambda: 0\n")
			for i := 1; i <= d; i++ {
				fmt.Fprintf(&sb, " f%d = lambda a=f%d: (a, f%d)\n", i, i-1, i-1)
			}
			fmt.Fprintf(&sb, " return f%d\ng = outer()\n", d)
			return sb.String()
		}},
		{name: "if-nest", gen: blockNest("if 1:", "pass")},
		{name: "if-elif-chain", gen: func(d int) string { return "if 0:\n pass\n" + rep("elif 0:\n pass\n", d) + "else:\n pass\n" }},
		{name: "for-nest", gen: blockNest("for a in [1]:", "pass")},
		{name: "for-nest-heavy", gen: blockNest("for a in range(10):", "pass")},
		{name: "while-nest", gen: blockNest("while 1:", "pass")},
		{name: "for-in-def-nest", gen: func(d int) string { return "def f():\n" + indent(blockNest("for a in [1]:", "pass")(d), " ") + "f()\n" }},
		{name: "load-many", gen: func(d int) string { return rep("load(\"m\", \"x\")\n", d) }},
		{name: "string-literal-long", gen: func(d int) string { return `"` + rep("a", d) + `"` }},
		{name: "string-escapes-many", gen: func(d int) string { return `"` + rep(`\x41\n\101`, d) + `"` }},
		{name: "int-literal-long", gen: func(d int) string { return "1" + rep("0", d) }},
		{name: "float-literal-long", gen: func(d int) string { return "1." + rep("0", d) + "e" + rep("9", (d+99)/100) }},
		{name: "ident-long", gen: func(d int) string { return rep("a", d) + "=1" }},
		{name: "comment-long", gen: func(d int) string { return "#" + rep("c", d) }},
		{name: "blank-lines-many", gen: func(d int) string { return rep("\n", d) + "a=1" }},
		{name: "indent-deep", gen: func(d int) string { return "if 1:\n" + rep(" ", d) + "pass\n" }},
		{name: "backslash-continuations", gen: func(d int) string { return "a=1" + rep("\\\n", d) + "+1" }},
		// a short program that makes a built-in recurse on data it builds itself
		{name: "json-decode-repeat-list", depths: bigTop, gen: func(d int) string { return fmt.Sprintf(`json.decode("[" * %d)`, d) }},
		{name: "json-decode-repeat-dict", depths: big, gen: func(d int) string { return fmt.Sprintf(`json.decode('{"a":' * %d)`, d) }},
		{name: "json-decode-balanced", depths: big, gen: func(d int) string { return fmt.Sprintf(`json.decode("[" * %d + "]" * %d)`, d, d) }},
		{name: "json-indent-repeat", depths: []int{1, 2, 3, 10, 100, 1000, 3000}, gen: func(d int) string { return fmt.Sprintf(`json.indent("[" * %d + "]" * %d)`, d, d) }},
		{name: "value-nest-str", depths: big, opts: onlyAll, gen: func(d int) string {
			return fmt.Sprintf("v=[]\nfor i in range(%d):\n v=[v]\ns=str(v)\nh=json.encode(v)\n", d)
		}},
		{name: "value-nest-tuple-hash", depths: big, opts: onlyAll, gen: func(d int) string {
			return fmt.Sprintf("v=()\nfor i in range(%d):\n v=(v,)\nd={v:1}\n", d)
		}},
		{name: "value-nest-eq", depths: big, opts: onlyAll, gen: func(d int) string {
			return fmt.Sprintf("v=[]\nu=[]\nfor i in range(%d):\n v=[v]\n u=[u]\nb=(v==u)\n", d)
		}},
		// runtime recursion (Recursion option on): the frame limit must stop it first
		{name: "rec-direct", depths: rec, opts: onlyAll, gen: func(d int) string {
			return fmt.Sprintf("def f(n):\n if n: return f(n-1)\n return 0\nf(%d)\n", d)
		}},
		{name: "rec-direct-bigbudget", depths: rec, opts: onlyAll, budget: 20000000, gen: func(d int) string {
			return fmt.Sprintf("def f(n):\n if n: return f(n-1)\n return 0\nf(%d)\n", d)
		}},
		{name: "rec-via-sorted-key-bigbudget", depths: rec, opts: onlyAll, budget: 20000000, gen: func(d int) string {
			return fmt.Sprintf("def f(n):\n if n: return sorted([n-1], key=f)\n return 0\nf(%d)\n", d)
		}},
		{name: "rec-via-max-key-bigbudget", depths: rec, opts: onlyAll, budget: 20000000, gen: func(d int) string {
			return fmt.Sprintf("def f(n):\n if n: return max([n-1], key=f)\n return 0\nf(%d)\n", d)
		}},
		{name: "value-nest-freeze-bigbudget", depths: deep, opts: onlyAll, budget: 20000000, gen: func(d int) string {
			return fmt.Sprintf("v=[]\nfor i in range(%d):\n v=[v]\n", d)
		}},
	}
}

func indent(s, by string) string {
	lines := strings.Split(strings.TrimRight(s, "\n"), "\n")
	for i := range lines {
		lines[i] = by + lines[i]
	}
	return strings.Join(lines, "\n") + "\n"
}

const maxSource = 64 << 10

// maxDepth is the largest d with len(gen(d)) <= 64 KiB.
func maxDepth(gen func(int) string) int {
	lo, hi := 1, 1
	for len(gen(hi)) <= maxSource {
		lo = hi
		hi *= 2
		if hi > 1<<20 {
			break
		}
	}
	for lo+1 < hi {
		mid := (lo + hi) / 2
		if len(gen(mid)) <= maxSource {
			lo = mid
		} else {
			hi = mid
		}
	}
	return lo
}

var ladderCache = map[string][]int{}

// computeAllLadders is run once by the coordinator; the workers read the
// result from a file instead of regenerating 64 KiB sources dozens of times.
func computeAllLadders() map[string][]int {
	out := map[string][]int{}
	for _, nc := range nestFamily(true) {
		if nc.depths == nil {
			nc := nc
			out[nc.name] = nc.computeLadder()
		}
	}
	return out
}

func (nc *nestCons) ladder() []int {
	if nc.depths != nil {
		return nc.depths
	}
	if l, ok := ladderCache[nc.name]; ok {
		return l
	}
	l := nc.computeLadder()
	ladderCache[nc.name] = l
	return l
}

func (nc *nestCons) computeLadder() []int {
	max := maxDepth(nc.gen)
	set := map[int]bool{max: true}
	// decades, plus both sides of every power of two that an operand width,
	// a stack or table index, or a documented limit (255 arguments) may sit at
	for _, d := range []int{1, 2, 3, 10, 100, 1000, 10000, 15, 16, 17, 31, 32, 33, 63, 64, 65, 127, 128, 129, 254, 255, 256, 257, 511, 512, 513, 1023, 1024, 1025, 4095, 4096, 4097, 16383, 16384, 16385, 32767, 32768, 32769} {
		if d <= max {
			set[d] = true
		}
	}
	var out []int
	for d := range set {
		out = append(out, d)
	}
	sort.Ints(out)
	return out
}

// nestLevel runs the members of the nesting family whose depth lies in
// [lo, hi]. All depths of a construct belong to one shard, in ascending order.
func (w *wk) nestLevel(lo, hi int) {
	debug.SetMaxStack(defaultMaxStack)
	for _, nc := range nestFamily(w.c.Thorough()) {
		nc := nc
		owner := avalanche(hashString("nest " + nc.name))
		opts := nc.opts
		if opts == nil {
			opts = []int{0, 63}
		}
		for _, d := range nc.ladder() {
			if d < lo || d > hi {
				continue
			}
			for _, o := range opts {
				if !w.take(owner) {
					continue
				}
				cs := &Case{F: "nest", Cons: nc.name, Depth: d, Opt: o, Budget: nc.budget}
				if !w.begin(cs) {
					continue
				}
				w.execNest(cs)
				w.end()
			}
		}
	}
}

func (w *wk) execNest(cs *Case) {
	debug.SetMaxStack(defaultMaxStack)
	for _, nc := range nestFamily(true) {
		if nc.name != cs.Cons {
			continue
		}
		src := nc.gen(cs.Depth)
		if nc.depths == nil && len(src) > maxSource {
			w.st.Inconcl = append(w.st.Inconcl, fmt.Sprintf("nest %s depth %d does not fit 64 KiB", cs.Cons, cs.Depth))
			return
		}
		budget := stepLimit
		if cs.Budget > 0 {
			budget = cs.Budget
		}
		w.runSource(cs, src, budget, "nest:"+cs.Cons)
		if cs.Depth >= 1000 && w.c.Shard%4 == 0 {
			w.st.Sample(map[string]any{"nest": cs.Cons, "depth": cs.Depth, "opt": optString(cs.Opt), "source_bytes": len(src)})
		}
		return
	}
	w.st.Inconcl = append(w.st.Inconcl, "replay: unknown nesting construct "+cs.Cons)
}
