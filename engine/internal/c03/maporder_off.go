//go:build !maporder

package c03

const mapOrderBuilt = false

func setMapOrder(f func(site, n int) []int) {}
