// Package c03 decides C03: execution is deterministic.  The result of a
// program must be a function of the program and its environment, so every
// other input to the computation is made an explicit choice and all choices
// within a bound are explored (shape D over the nondeterminism seams):
//
//	(a) the per-process string-hash seed: every assignment of the program's
//	    long strings to a 5-value hash codomain (hook VerifSetStringHash);
//	(b) Go map iteration order: an -overlay build, generated from the current
//	    sources by a go/types pass, in which every map range iterates in an
//	    order the explorer chooses: sorted, reversed, every rotation, at one
//	    site (quick) or two sites (thorough);
//	(c) history: A; B; A in one process for every B of a set;
//	(d) threads: N threads run the same program under the controlled
//	    scheduler, all schedules up to a preemption bound.
//
// Oracle: byte-identical transcript (print output, probe values, canonical
// globals with iteration order, error, backtrace, step count).
package c03

import (
	"bytes"
	"encoding/json"
	"errors"
	"fmt"
	"os"
	"os/exec"
	"path/filepath"
	"sort"
	"strings"
	"sync"
	"time"

	sjson "go.starlark.net/lib/json"
	smath "go.starlark.net/lib/math"
	stime "go.starlark.net/lib/time"
	"go.starlark.net/starlark"
	"go.starlark.net/starlarkstruct"
	"go.starlark.net/syntax"

	"verif/internal/fw"
	"verif/internal/prog"
	"verif/internal/sched"
)

var fileOpts = &syntax.FileOptions{Set: true, While: true, TopLevelControl: true, GlobalReassign: true, Recursion: true}

var fixedNow = time.Date(2024, 2, 29, 12, 34, 56, 789, time.UTC)

func init() { time.Local = time.UTC }

type transcript struct {
	Out     []string
	Globals string
	Err     string
	Back    string
	Steps   uint64
}

func (t transcript) String() string {
	return fmt.Sprintf("out=%q globals=%s err=%q backtrace=%q steps=%d", t.Out, t.Globals, t.Err, t.Back, t.Steps)
}

func (t transcript) equal(u transcript) bool { return t.String() == u.String() }

var moduleCache = map[string]starlark.StringDict{}

func loadModule(name string) (starlark.StringDict, error) {
	switch name {
	case "m":
		d := starlark.StringDict{"a": starlark.MakeInt(11), "b": starlark.NewList([]starlark.Value{starlark.MakeInt(12)}), "ab": starlark.String("cc"), "aaa": starlark.None}
		d.Freeze()
		return d, nil
	case "lib":
		// a module with functions, compiled and executed once per process and
		// then shared (frozen) by every thread that loads it
		if freshLib {
			// a pristine copy: compiled code that no earlier execution has touched
			return starlark.ExecFileOptions(threadOpts, &starlark.Thread{Name: "lib"}, "lib.star", libSrc, nil)
		}
		libOnce.Do(func() {
			th := &starlark.Thread{Name: "lib"}
			libGlobals, libErr = starlark.ExecFileOptions(threadOpts, th, "lib.star", libSrc, nil)
		})
		return libGlobals, libErr
	}
	return nil, fmt.Errorf("no such module %q", name)
}

const libSrc = `
def inc(x):
    return x + 1
def apply(f, x):
    return f(x)
def tot(xs):
    n = 0
    for x in xs:
        n += inc(x)
    return n
def mk(n):
    def add(x):
        return x + n
    return add
add5 = mk(5)
def head(xs):
    return xs[0].name
def walk(v):
    return v[0][1][2]
def pick(d, k):
    return d[k] + d[k + 1]
`

// freshLib makes load("lib") compile and execute a new copy of the module, so
// that the execution shares no compiled code with any earlier one (the
// baseline of the history check).
var freshLib bool

var (
	libOnce    sync.Once
	libGlobals starlark.StringDict
	libErr     error
)

// execute runs src once on a fresh thread; hook (optional) is the
// per-instruction seam.
func execute(src string, hook func()) (tr transcript) {
	return executeWith(src, nil, hook)
}

// threadOpts is the dialect of the thread sub-check: recursion is off (the
// default), so every call runs the dynamic recursion check over state that
// threads sharing compiled code could interfere through.
var threadOpts = &syntax.FileOptions{Set: true, While: true, TopLevelControl: true, GlobalReassign: true}

// compileShared compiles src once, for all threads of a schedule to initialise.
func compileShared(src string) *starlark.Program {
	isPre := func(name string) bool {
		switch name {
		case "struct", "json", "math", "time", "mk", "t":
			return true
		}
		return false
	}
	_, p, err := starlark.SourceProgramOptions(threadOpts, "p.star", src, isPre)
	if err != nil {
		return nil
	}
	return p
}

// executeWith runs src (or, if shared is non-nil, that compiled program) once
// on a fresh thread.
// reuseThread, if set, is the thread every execution runs on (the host keeps
// one thread for successive programs) instead of a new one each time.
var reuseThread *starlark.Thread

func executeWith(src string, shared *starlark.Program, hook func()) (tr transcript) {
	th := &starlark.Thread{Name: "c03"}
	var stepsBefore uint64
	if reuseThread != nil && hook == nil {
		th = reuseThread
		th.Uncancel()
		stepsBefore = th.ExecutionSteps()
	}
	th.Print = func(_ *starlark.Thread, msg string) { tr.Out = append(tr.Out, "print:"+msg) }
	th.Load = func(_ *starlark.Thread, module string) (starlark.StringDict, error) { return loadModule(module) }
	stime.SetNow(th, func() (time.Time, error) { return fixedNow, nil })
	pre := starlark.StringDict{
		"struct": starlark.NewBuiltin("struct", starlarkstruct.Make),
		"json":   sjson.Module,
		"math":   smath.Module,
		"time":   stime.Module,
		"mk": starlark.NewBuiltin("mk", func(*starlark.Thread, *starlark.Builtin, starlark.Tuple, []starlark.Tuple) (starlark.Value, error) {
			return prog.NewObj(), nil
		}),
	}
	pre["t"] = starlark.NewBuiltin("t", func(_ *starlark.Thread, b *starlark.Builtin, args starlark.Tuple, kwargs []starlark.Tuple) (starlark.Value, error) {
		if len(args) != 2 {
			return nil, fmt.Errorf("t: want 2 arguments")
		}
		tr.Out = append(tr.Out, args[0].String()+":"+prog.Canon(args[1])+"|"+args[1].String())
		// attribute listings as the host sees them through the Go API
		if h, ok := args[1].(starlark.HasAttrs); ok {
			tr.Out = append(tr.Out, "attrs:"+strings.Join(h.AttrNames(), ","))
		}
		return args[1], nil
	})
	if hook != nil {
		th.SetMaxExecutionSteps(1)
		th.OnMaxSteps = func(*starlark.Thread) { hook() }
	} else {
		th.SetMaxExecutionSteps(stepsBefore + 200000)
	}
	defer func() {
		if r := recover(); r != nil {
			tr.Err = fmt.Sprintf("PANIC: %v", r)
		}
	}()
	var g starlark.StringDict
	var err error
	if shared != nil {
		g, err = shared.Init(th, pre)
	} else {
		g, err = starlark.ExecFileOptions(fileOpts, th, "p.star", src, pre)
	}
	tr.Steps = th.ExecutionSteps() - stepsBefore
	names := g.Keys()
	vals := make([]starlark.Value, len(names))
	for i, n := range names {
		vals[i] = g[n]
	}
	tr.Globals = prog.CanonAll(names, vals)
	if err != nil {
		tr.Err = err.Error()
		var ee *starlark.EvalError
		if errors.As(err, &ee) {
			tr.Back = ee.Backtrace()
		}
	}
	return
}

type kase struct {
	Kind   string         `json:"kind"` // hash | maporder | history | threads
	Src    string         `json:"src"`
	Hashes map[string]int `json:"hashes,omitempty"` // long string -> index in codomain
	Sites  map[string]int `json:"sites,omitempty"`  // site -> deviation (1 = reversed, 2.. = rotation by dev-1)
	B      int            `json:"b,omitempty"`
	Prefix []int          `json:"prefix,omitempty"`
	N      int            `json:"n,omitempty"`
}

func (k kase) key() string {
	s := k.Src
	if len(s) > 120 {
		s = s[:120] + "..."
	}
	switch k.Kind {
	case "hash":
		return fmt.Sprintf("hash-assignment %v: %s", sortedMap(k.Hashes), s)
	case "maporder":
		return fmt.Sprintf("map-order %v: %s", sortedMap(k.Sites), s)
	case "history":
		return fmt.Sprintf("history B=%d: %s", k.B, s)
	case "unstable":
		return fmt.Sprintf("unstable: %s", s)
	}
	return fmt.Sprintf("threads n=%d: %s", k.N, s)
}

func sortedMap(m map[string]int) string {
	var ks []string
	for k := range m {
		ks = append(ks, k)
	}
	sort.Strings(ks)
	var sb strings.Builder
	for _, k := range ks {
		fmt.Fprintf(&sb, "%s=%d,", k, m[k])
	}
	return sb.String()
}

// ---------------------------------------------------------------------------
// (a) hash assignments

var codomain = []uint32{0, 1, 2, 2 + 1<<16, 3}

func longStrings(src string) []string {
	var out []string
	for _, l := range []string{L0, L1, L2} {
		if strings.Contains(src, l) {
			out = append(out, l)
		}
	}
	return out
}

func withHashes(assign map[string]int, f func()) {
	starlark.VerifSetStringHash(func(s string) (uint32, bool) {
		if i, ok := assign[s]; ok {
			return codomain[i], true
		}
		// derived long strings (concatenations) keep a fixed, seed-independent hash
		if len(s) >= 12 {
			var h uint32 = 2166136261
			for i := 0; i < len(s); i++ {
				h = (h ^ uint32(s[i])) * 16777619
			}
			return h, true
		}
		return 0, false
	})
	defer starlark.VerifSetStringHash(nil)
	f()
}

// checkStable looks for nondeterminism that no seam controls (for example a
// leaked Go map iteration order in the ordinary build): repeated identical
// executions must agree. It returns false if they do not.
func checkStable(src string, reps int, st *fw.Stats, report func(k kase, what string)) bool {
	var base transcript
	withHashes(map[string]int{}, func() { base = execute(src, nil) })
	for i := 0; i < reps; i++ {
		var tr transcript
		withHashes(map[string]int{}, func() { tr = execute(src, nil) })
		st.Evals++
		if !tr.equal(base) {
			report(kase{Kind: "unstable", Src: src}, fmt.Sprintf("two identical executions in one process differ: %s vs %s", tr, base))
			return false
		}
	}
	return true
}

func checkHashes(src string, st *fw.Stats, report func(k kase, what string)) {
	ls := longStrings(src)
	if !checkStable(src, 3, st, report) {
		return
	}
	var base transcript
	withHashes(map[string]int{}, func() { base = execute(src, nil) })
	st.Evals++
	if len(ls) == 0 {
		return
	}
	n := 1
	for range ls {
		n *= len(codomain)
	}
	for a := 0; a < n; a++ {
		assign := map[string]int{}
		x := a
		for _, l := range ls {
			assign[l] = x % len(codomain)
			x /= len(codomain)
		}
		var tr transcript
		withHashes(assign, func() { tr = execute(src, nil) })
		st.Evals++
		st.Schedules++
		if !tr.equal(base) {
			report(kase{Kind: "hash", Src: src, Hashes: assign}, fmt.Sprintf("transcript depends on the string hash: %s vs %s", tr, base))
			return
		}
	}
	// and with the real per-process seed
	real := execute(src, nil)
	st.Evals++
	if !real.equal(base) {
		report(kase{Kind: "hash", Src: src, Hashes: map[string]int{"<real-seed>": 0}}, fmt.Sprintf("transcript with the real seed differs: %s vs %s", real, base))
	}
	st.Nontrivial++
	st.Outcome(fmt.Sprintf("hash:%d-long-strings:fails=%v", len(ls), base.Err != ""))
}

// ---------------------------------------------------------------------------
// (b) map iteration order (only in the overlay build)

func permutation(dev, n int) []int {
	p := make([]int, n)
	switch {
	case dev == 1: // reversed
		for i := range p {
			p[i] = n - 1 - i
		}
	default: // rotation by dev-1
		r := (dev - 1) % n
		for i := range p {
			p[i] = (i + r) % n
		}
	}
	return p
}

func checkMapOrder(src string, pairs bool, st *fw.Stats, report func(k kase, what string)) {
	hits := map[int]int{} // site -> largest n seen
	setMapOrder(func(site, n int) []int {
		if n > hits[site] {
			hits[site] = n
		}
		return nil
	})
	base := execute(src, nil)
	st.Evals++
	var sites []int
	for s, n := range hits {
		if n >= 2 {
			sites = append(sites, s)
		}
	}
	sort.Ints(sites)
	if len(sites) == 0 {
		setMapOrder(nil)
		return
	}
	st.Nontrivial++
	st.Outcome(fmt.Sprintf("maporder:%d-sites-hit", len(sites)))
	devs := func(site int) int {
		n := hits[site]
		if n > 8 {
			n = 8
		}
		return n // deviations 1..n: reversed, rotations 1..n-1
	}
	run := func(choice map[int]int) transcript {
		setMapOrder(func(site, n int) []int {
			if d, ok := choice[site]; ok && n >= 2 {
				return permutation(d, n)
			}
			return nil
		})
		return execute(src, nil)
	}
	for _, s := range sites {
		for d := 1; d <= devs(s); d++ {
			tr := run(map[int]int{s: d})
			st.Evals++
			st.Schedules++
			if !tr.equal(base) {
				report(kase{Kind: "maporder", Src: src, Sites: map[string]int{fmt.Sprint(s): d}}, fmt.Sprintf("transcript depends on Go map iteration order at site %d: %s vs %s", s, tr, base))
				setMapOrder(nil)
				return
			}
		}
	}
	if pairs {
		for i, s1 := range sites {
			for _, s2 := range sites[i+1:] {
				for d1 := 1; d1 <= devs(s1); d1++ {
					for d2 := 1; d2 <= devs(s2); d2++ {
						tr := run(map[int]int{s1: d1, s2: d2})
						st.Evals++
						st.Schedules++
						if !tr.equal(base) {
							report(kase{Kind: "maporder", Src: src, Sites: map[string]int{fmt.Sprint(s1): d1, fmt.Sprint(s2): d2}}, fmt.Sprintf("transcript depends on map order at sites %d,%d: %s vs %s", s1, s2, tr, base))
							setMapOrder(nil)
							return
						}
					}
				}
			}
		}
	}
	setMapOrder(nil)
	for s := range hits {
		st.Count(fmt.Sprintf("maporder_site_%d_hit_by_programs", s), 1)
	}
}

// ---------------------------------------------------------------------------
// (c) history

func checkHistory(src string, st *fw.Stats, report func(k kase, what string)) {
	// baseline: with pristine compiled code. (With the shared, cached module a
	// state left behind by an earlier execution could already be part of the
	// first run and perpetuate itself.)
	freshLib = true
	first := execute(src, nil)
	freshLib = false
	st.Evals++
	if now := execute(src, nil); !now.equal(first) {
		st.Evals++
		report(kase{Kind: "history", Src: src, B: -1}, fmt.Sprintf("transcript with compiled code shared with earlier executions differs from the transcript with pristine compiled code: %s vs %s", now, first))
		return
	}
	for bi, b := range historyPrograms {
		execute(b, nil)
		again := execute(src, nil)
		st.Evals += 2
		st.Schedules++
		if !again.equal(first) {
			report(kase{Kind: "history", Src: src, B: bi}, fmt.Sprintf("transcript changed after an unrelated execution: %s vs %s", again, first))
			return
		}
	}
	// the same on ONE thread that the host keeps for successive executions (a thread
	// recycles its frames): every B, then A, must give A's pristine transcript
	reuseThread = &starlark.Thread{Name: "c03-reused"}
	defer func() { reuseThread = nil }()
	for bi, b := range historyPrograms {
		execute(b, nil)
		again := execute(src, nil)
		st.Evals += 2
		st.Schedules++
		if !again.equal(first) {
			report(kase{Kind: "history", Src: src, B: 1000 + bi}, fmt.Sprintf("transcript on a thread that has run another program before differs from the transcript on a fresh thread: %s vs %s", again, first))
			return
		}
	}
	st.Nontrivial++
}

// ---------------------------------------------------------------------------
// (d) threads

func checkThreads(c *fw.Ctx, src string, n, bound int, st *fw.Stats, report func(k kase, what string)) {
	// The threads share one compiled program (and, through load, one frozen
	// module with functions), as hosts that cache compiled files do.
	shared := compileShared(src)
	if shared == nil {
		st.Count("thread_programs_compiled_per_thread(static error under the default dialect)", 1)
	}
	solo := executeWith(src, shared, func() {})
	st.Evals++
	// keep the number of schedules tractable: long programs get a smaller bound
	limit := uint64(90)
	if c.Thorough() {
		limit = 250
	}
	if solo.Steps > 4*limit {
		return
	}
	if solo.Steps > limit {
		bound = 1
	}
	bad := false
	run := func(prefix []int) *sched.Execution {
		trs := make([]transcript, n)
		x, err := sched.Run(n, prefix, func(id int, yield func()) {
			trs[id] = executeWith(src, shared, yield)
		})
		if err != nil {
			fw.Fatal("c03 scheduler: %v", err)
		}
		st.Evals++
		for i, tr := range trs {
			if !tr.equal(solo) && !bad {
				bad = true
				report(kase{Kind: "threads", Src: src, N: n, Prefix: append([]int(nil), x.Choices...)}, fmt.Sprintf("thread %d under interleaving observed %s, alone %s", i, tr, solo))
			}
		}
		return x
	}
	sched.Explore(n, bound, run, func(x *sched.Execution) {
		st.Schedules++
		st.States++
		st.Transitions += int64(len(x.Points))
	}, nil, true)
	st.Nontrivial++
	st.Outcome(fmt.Sprintf("threads:solo-fails=%v:shared-program=%v", solo.Err != "", shared != nil))
}

// ---------------------------------------------------------------------------

func worker(c *fw.Ctx) *fw.Stats {
	st := fw.NewStats()
	nviol := 0
	report := func(k kase, what string) {
		if nviol < 8 {
			nviol++
			st.Violate(k.key(), what, k)
		}
	}
	mode := "main"
	if len(c.Args) > 0 {
		mode = c.Args[0]
	}
	progs := append(orderPrograms(), corpusPrograms(c.Thorough())...)
	if mode == "maporder" {
		if !mapOrderBuilt {
			fw.Fatal("maporder worker run without the overlay build")
		}
		for i, src := range progs {
			if c.Mine(int64(i)) {
				checkMapOrder(src, c.Thorough(), st, report)
			}
		}
		return st
	}
	for i, src := range progs {
		if !c.Mine(int64(i)) {
			continue
		}
		if c.Expired() {
			if c.Shard == 0 {
				st.Cut = append(st.Cut, fmt.Sprintf("programs from #%d of %d", i, len(progs)))
			}
			break
		}
		before := len(st.Viols)
		checkHashes(src, st, report)
		if len(st.Viols) == before {
			checkHistory(src, st, report)
		}
		if i%61 == 0 {
			st.Sample(map[string]any{"program": src, "long_strings": longStrings(src), "hash_assignments": "all 5^k", "histories": len(historyPrograms)})
		}
	}
	// threads: the order-exposing programs (short ones) under the scheduler
	threads, bound := 2, 2
	if c.Thorough() {
		threads, bound = 3, 2
	}
	ops := orderPrograms()
	for i, src := range ops {
		if !c.Mine(int64(i)) || c.Expired() {
			continue
		}
		checkThreads(c, src, threads, bound, st, report)
	}
	if c.Shard == 0 {
		st.Levels = append(st.Levels,
			fmt.Sprintf("hash: %d programs x all assignments of their long strings to %d hash values + real seed", len(progs), len(codomain)),
			fmt.Sprintf("history: %d programs x A;B;A for %d B", len(progs), len(historyPrograms)),
			fmt.Sprintf("threads: %d order-exposing programs x %d threads, all schedules with <= %d preemptions", len(ops), threads, bound))
	}
	return st
}

func runMapOrder(c *fw.Ctx, total *fw.Stats) {
	bin := filepath.Join(fw.BinDir(), "vcheck-maporder")
	if _, err := os.Stat(bin); err != nil {
		total.Notes = append(total.Notes, "maporder: skipped (overlay binary not built)")
		return
	}
	// shard over 8 processes
	const n = 8
	type res struct {
		st  *fw.Stats
		err string
	}
	ch := make(chan res, n)
	for i := 0; i < n; i++ {
		go func(i int) {
			cmd := exec.Command(bin, "worker", "C03", c.Tier, fmt.Sprint(i), fmt.Sprint(n), "maporder")
			cmd.Env = append(os.Environ(), "VERIF_DEADLINE="+fmt.Sprint(c.Deadline.UnixNano()))
			var out, errb bytes.Buffer
			cmd.Stdout, cmd.Stderr = &out, &errb
			if err := cmd.Run(); err != nil {
				ch <- res{nil, fmt.Sprintf("%v: %s", err, errb.String())}
				return
			}
			s := fw.NewStats()
			for _, line := range strings.Split(out.String(), "\n") {
				if strings.HasPrefix(line, "RESULT ") {
					json.Unmarshal([]byte(line[7:]), s)
				}
			}
			ch <- res{s, ""}
		}(i)
	}
	for i := 0; i < n; i++ {
		r := <-ch
		if r.err != "" {
			fw.Fatal("maporder worker: %s", r.err)
		}
		total.Merge(r.st)
	}
	sites, _ := os.ReadFile(filepath.Join(fw.BinDir(), "maporder-out", "sites.tsv"))
	total.Levels = append(total.Levels, "maporder: every program x every hit map-range site x {reversed, every rotation}"+map[bool]string{true: " x pairs of sites", false: ""}[c.Thorough()])
	total.Notes = append(total.Notes, "instrumented map-range sites (go/types pass over the current sources): "+strings.ReplaceAll(strings.TrimSpace(string(sites)), "\n", "; "))
}

func run(c *fw.Ctx) *fw.Stats {
	total := c.Sharded(0, nil)
	runMapOrder(c, total)
	return total
}

func replay(c *fw.Ctx, raw json.RawMessage) []fw.Viol {
	var k kase
	if err := json.Unmarshal(raw, &k); err != nil {
		fw.Fatal("bad case: %v", err)
	}
	st := fw.NewStats()
	var out []fw.Viol
	report := func(kk kase, what string) { out = append(out, fw.Viol{Key: kk.key(), What: what}) }
	switch k.Kind {
	case "unstable":
		checkStable(k.Src, 60, st, report)
	case "hash":
		checkHashes(k.Src, st, report)
	case "history":
		if k.B < 0 {
			// the state the program met was left by the programs that ran before it in this
			// worker: recreate a superset of it (every order-exposing program once)
			for _, p := range orderPrograms() {
				execute(p, nil)
			}
		}
		checkHistory(k.Src, st, report)
	case "threads":
		checkThreads(c, k.Src, k.N, 2, st, report)
	case "maporder":
		if mapOrderBuilt {
			checkMapOrder(k.Src, true, st, report)
		} else {
			// re-exec in the overlay binary
			bin := filepath.Join(fw.BinDir(), "vcheck-maporder")
			f, _ := os.CreateTemp(fw.BinDir(), "replay-*.tmp")
			b, _ := json.Marshal(fw.Viol{Key: k.key(), Case: raw})
			f.Write(b)
			f.Close()
			defer os.Remove(f.Name())
			o, _ := exec.Command(bin, "replay", "C03", f.Name()).CombinedOutput()
			if bytes.Contains(o, []byte("REPRODUCED")) {
				out = append(out, fw.Viol{Key: k.key(), What: string(o)})
			}
		}
	}
	// a replay reproduces if any violation of the same kind on the same program shows up
	var same []fw.Viol
	for _, v := range out {
		if strings.HasPrefix(v.Key, strings.SplitN(k.key(), " ", 2)[0]) {
			v.Key = k.key()
			same = append(same, v)
			break
		}
	}
	return same
}

func init() {
	fw.Register(&fw.Prop{
		ID:    "C03",
		Level: "model_checking",
		Rule: "order-exposing programs (dict/set over long and short strings, dir() of every type and module, struct/module printing, json, 'did you mean' hints, failing programs, fixed-clock time, math) plus the smallest levels of the C01 profiles; for each: " +
			"all 5^k assignments of its k long strings to the hash codomain {0,1,2,2+2^16,3} and the real seed; every hit map-range site x {reversed, every rotation} in the type-driven overlay build; A;B;A for every B; all schedules of N threads up to a preemption bound; " +
			"oracle: byte-identical transcript; schedules counts all explored choice vectors; non-trivial = programs on which a seam had at least one alternative",
		Run: run, Worker: worker, Replay: replay,
		Assumptions: []string{
			"the hash seed reaches behaviour only through hashString for strings of >= 12 bytes (the hook intercepts exactly that function), so every seed is some assignment of hashes to the program's long strings; tables of <= 8 entries observe only equality of hashes, bucket choice observes low bits: the codomain covers equal, zero, same-bucket-different-hash and distinct",
			"time.Now is injected (SetNow) and the process zone is UTC; lib/proto is not part of this property",
			"real maphash seeds of other processes are not enumerated (every run also uses this process's real seed once)",
		},
		BudgetQuick: 90, BudgetThorough: 1200,
	})
}
