package c03

import (
	"fmt"

	"verif/internal/prog"
)

// Order-exposing programs: every place where an internal (unordered) Go map,
// the per-process string-hash seed, or earlier executions could leak into
// what the program can observe.  Long strings (>= 12 bytes, the hashing
// switch) are written L0, L1, L2 so that the explorer can find them.
const (
	L0 = "long-string-key-zero-000"
	L1 = "long-string-key-one-1111"
	L2 = "long-string-key-two-2222"
)

func orderPrograms() []string {
	q := func(s string) string { return fmt.Sprintf("%q", s) }
	ps := []string{
		// dict / set construction and iteration with long and short keys
		fmt.Sprintf("d = {%s: 1, 'a': 2, %s: 3, 'b': 4, %s: 5}\nt(1, d.keys())\nt(2, [k for k in d])\nt(3, d.items())\nd.pop(%s)\nd[%s] = 9\nt(4, d)\n", q(L0), q(L1), q(L2), q(L0), q(L0)),
		fmt.Sprintf("s = set([%s, 'x', %s, %s, 'y'])\nt(1, list(s))\nu = s | set(['z', %s])\nt(2, u)\nt(3, s & set([%s, 'x', %s]))\nt(4, s - set([%s]))\nt(5, s ^ set([%s, 'q']))\nt(6, sorted(s))\n", q(L0), q(L1), q(L2), q(L0), q(L2), q(L1), q(L1), q(L2)),
		fmt.Sprintf("d = {}\nfor i in range(12):\n    d[%s + str(i)] = i\nt(1, d.keys())\nfor i in range(0, 12, 2):\n    d.pop(%s + str(i))\nd[%s] = 1\nt(2, d.items())\nt(3, dict(d, **{%s: 2}))\n", q(L0), q(L0), q(L1), q(L2)),
		fmt.Sprintf("a = {%s: 1, %s: 2}\nb = {%s: 3, %s: 4}\nt(1, a | b)\na.update(b)\nt(2, a)\nt(3, dict([(%s, 1), (%s, 2)], x = 3, yy = 4))\n", q(L0), q(L1), q(L1), q(L2), q(L2), q(L0)),
		// hash() of strings is specified to be seed independent
		fmt.Sprintf("t(1, hash(%s))\nt(2, hash('short'))\nt(3, hash(b'0123456789abcdef'))\n", q(L0)),
		// attribute listings of every built-in type and module
		"t(1, dir(''))\nt(2, dir(b''))\nt(3, dir([]))\nt(4, dir({}))\nt(5, dir(set()))\nt(6, dir(()))\nt(7, dir(1))\nt(8, dir(None))\nt(9, dir(range(1)))\n",
		"t(1, dir(json))\nt(2, dir(math))\nt(3, dir(time))\nt(4, dir(time.now()))\nt(5, dir(time.parse_duration('1h')))\nt(6, dir(struct(b = 1, a = 2, c = 3)))\n",
		// the values themselves (the probe records AttrNames() as the host sees it)
		"t(1, '')\nt(2, b'')\nt(3, [])\nt(4, {})\nt(5, set())\nt(6, json)\nt(7, math)\nt(8, time)\nt(9, time.now())\nt(10, time.parse_duration('1h'))\nt(11, struct(b = 1, a = 2, c = 3))\nt(12, struct(b = 1) + struct(a = 2))\n",
		// str/repr of struct, module, struct + struct
		"s1 = struct(zeta = 1, alpha = 2, mid = [3])\ns2 = struct(beta = 1, alpha = 9, omega = 2)\nt(1, str(s1))\nt(2, repr(s1 + s2))\nt(3, str(json))\nt(4, str(math))\nt(5, s1 == struct(mid = [3], alpha = 2, zeta = 1))\nt(6, json.encode(s1 + s2))\n",
		fmt.Sprintf("t(1, json.encode({%s: 1, 'b': [2, {%s: 3, 'a': 4}], %s: None}))\nt(2, json.decode('{\"q\": 1, \"%s\": 2, \"a\": {\"z\": 1, \"b\": 2}}'))\nt(3, json.encode(struct(z = 1, a = struct(y = 2, b = 3))))\nt(4, json.indent(json.encode({'b': 1, 'a': 2})))\n", q(L0), q(L1), q(L2), L0),
		// "did you mean" hints
		"x = [1]\nx.apend(2)\n",
		"x = {}\nx.udpate({})\n",
		"s = struct(alpha = 1, beta = 2)\nt(1, s.alpah)\n",
		"t(1, json.encod(1))\n",
		"t(1, time.noww())\n",
		"load('m', 'aa')\n",
		"def f(alpha, beta = 1): return alpha\nf(alhpa = 1)\n",
		"t(1, sorted([3, 1, 2], revrese = True))\n",
		"t(1, dict(a = 1).get('a', defalt = 2))\n",
		"apple = 1\nbanana = 2\ndef f():\n    cherry = 3\n    return aple\n",
		// failing programs: backtrace text
		"def f(x):\n    return g(x)\ndef g(x):\n    return [h(y) for y in x]\ndef h(y):\n    return 1 // y\nr = f([1, 0])\n",
		fmt.Sprintf("d = {%s: 1}\ndef f():\n    return d[%s]\nf()\n", q(L0), q(L1)),
		"def f():\n    fail('boom', {'b': 1, 'a': 2}, struct(y = 1, x = 2))\nf()\n",
		// time with an injected fixed clock
		"n = time.now()\nt(1, n)\nt(2, (n.year, n.month, n.day, n.hour, n.unix, n.unix_nano))\nt(3, n + time.parse_duration('90m'))\nt(4, time.time(year = 2020, month = 2, day = 29, location = 'UTC'))\nt(5, str(n.in_location('America/New_York')))\nt(6, {n: 1, time.from_timestamp(0): 2})\n",
		// math
		"t(1, [math.sqrt(2), math.floor(-1.5), math.pow(2, 0.5), math.pi, math.atan2(1, 2), math.gamma(5.5)])\nt(2, 1e300 * 1e10)\nt(3, 0.1 + 0.2)\nt(4, '%g %e %f' % (1.5, 1e10, 0.25))\n",
		// print and string formatting of containers
		fmt.Sprintf("print({%s: [1, (2,)], 'k': {%s: set([%s, 'e'])}})\nprint('%%s %%r' %% ({%s: 1}, set([%s])))\n", q(L0), q(L1), q(L2), q(L0), q(L1)),
		// compiled code shared between threads: functions of a loaded module and of the program itself
		"load('lib', 'inc', 'tot', 'apply', 'add5', 'mk')\nt(1, tot([1, 2, 3]))\nt(2, apply(inc, 4))\nt(3, [inc(i) for i in range(3)])\nt(4, add5(1) + mk(2)(3))\n",
		"def f(x):\n    return g(x) + 1\ndef g(x):\n    return x * 2\nt(1, [f(i) for i in range(3)])\nt(2, sorted([3, 1, 2], key = f))\nt(3, f(g(f(1))))\n",
		// one shared function failing at different operations in different executions
		"load('lib', 'head')\nhead([])\n",
		"load('lib', 'head')\nhead([1])\n",
		"load('lib', 'walk')\nwalk([])\n",
		"load('lib', 'walk')\nwalk([[0]])\n",
		"load('lib', 'walk')\nwalk([[0, []]])\n",
		"load('lib', 'pick')\npick({1: 1}, 0)\n",
		"load('lib', 'pick')\npick({1: 1}, 1)\n",
		"load('lib', 'pick')\npick({1: 1, 2: 'x'}, 1)\n",
		// attribute listings and hints of every kind of value as the host sees them (t records AttrNames)
		"n = time.now()\nd = time.parse_duration('1h')\nt(1, n)\nt(2, d)\nt(3, n.heaur)\n",
		"d = time.parse_duration('1h')\nt(1, d.secnds)\n",
		"t(1, struct(alpha = 1, beta = 2))\nt(2, json)\nt(3, math)\nt(4, time)\nt(5, [].apend)\n",
		// undefined names as close to one referenced predeclared or universal name as to another
		"x = min(1, 2)\ny = max(1, 2)\nz = mix(1, 2)\n",
		"a = any([])\nb = all([])\nc = aly([])\n",
		"p = [list, dict, tuple, set]\nq = lict\n",
		"u = json.encode(1)\nv = math.pi\nw = jsom\n",
		"def f():\n    return [len, min, max, int, str][0](mxn)\nf()\n",
		// functions as keys, hash of tuples
		fmt.Sprintf("def f(): pass\ndef g(): pass\nd = {f: 1, g: 2, (%s, 1): 3, (1, %s): 4, len: 5}\nt(1, [v for v in d.values()])\nt(2, hash(%s) == hash(%s))\n", q(L0), q(L0), q(L1), q(L1)),
	}
	return ps
}

// corpusPrograms adds the smallest levels of the C01 grammar profiles.
func corpusPrograms(thorough bool) []string {
	var out []string
	stride := map[string]int{"expr": 7, "plus": 5, "assign": 13, "control": 3, "scope": 211, "call": 41, "load": 3, "comp": 5}
	if thorough {
		stride = map[string]int{"expr": 2, "plus": 2, "assign": 3, "control": 1, "scope": 37, "call": 7, "load": 1, "comp": 2}
	}
	for _, pf := range prog.Profiles() {
		for l := 1; l <= 2; l++ {
			if pf.Name == "scope" && l == 2 || l > pf.MaxLevel {
				continue
			}
			i := 0
			pf.Level(l, func(p prog.Program) bool {
				i++
				sd := stride[pf.Name]
				if sd == 0 {
					sd = 17 // profiles added later
				}
				if i%sd == 0 {
					out = append(out, prog.Render(p.Instantiate()))
				}
				return true
			})
		}
	}
	return out
}

// historyPrograms are the B of "A; B; A": executions that populate caches,
// fail with a backtrace (decoding position tables), load modules and use
// every module's method tables.
var historyPrograms = []string{
	// every kind of value is dir()ed (built-ins that list attributes must not disturb anything shared)
	"vs = [time.now(), time.parse_duration('1s'), time, json, math, struct(b = 1, a = 2), [], {}, '', b'', set(), (), 1, 1.0, None, True, range(1), len, [].append, lambda: 1]\nx = [dir(v) for v in vs]\ny = [str(v) for v in vs]\n",
	// the shared library functions fail at each of their operations
	"load('lib', 'head')\nhead([])\n",
	"load('lib', 'head')\nhead([1])\n",
	"load('lib', 'walk')\nwalk([[0]])\n",
	"load('lib', 'pick')\npick({1: 1}, 1)\n",
	"x = dir([]) + dir({}) + dir('') + dir(set()) + dir(json) + dir(time) + dir(math)\n",
	"def f(): return [1][5]\nf()\n",
	"load('m', 'a', 'b')\ny = (a, b)\n",
	"d = {'long-string-key-zero-000': 1, 'zzzzzzzzzzzzzzzzzzzzzzzzzzzz': 2}\ns = set(d.keys())\nz = json.encode(d)\n",
	"q = [hash(str(i) * 5) for i in range(50)]\nw = sorted(q)\n",
	"n = time.now()\nu = struct(a = n)\nv = str(u) + repr(time.parse_duration('1s'))\n",
}
