//go:build maporder

package c03

import "go.starlark.net/starlark"

const mapOrderBuilt = true

func setMapOrder(f func(site, n int) []int) { starlark.VerifSetMapOrder(f) }
