#!/usr/bin/env python3
"""Regenerates /verif/MANIFEST.json from the table below (kept in one place so
that the manifest stays valid and the not_applicable list stays current)."""
import json, subprocess, os
ALL = ["C%02d" % i for i in range(1, 21)]
# id -> (category, technique, level text, level note, design ref)
CHECKS = {
 "C10": ("exploration",
  "exhaustive cross product of a boundary pool of ints and floats under every operator, conversion, formatting and integer built-in (range, enumerate, repetition, math.floor/ceil/round), under both Int representations, against a Python 3 (int/Fraction/range) batch oracle",
  "Every operator and numeric built-in gives the mathematically exact result (or, for built-ins, fails) on the full cross product of the boundary pool, identically in the address-space-optimised and the fallback Int representation (selected by running workers under ulimit -v) and, in thorough, the generic representation via a build overlay.",
  "Trusts CPython integers/fractions/range and the encoding of Starlark-vs-Python differences from doc/spec.md (cases the spec leaves open are counted as unjudged); magnitudes outside the pool are not covered.",
  "DESIGN.md §3 C10"),
 "C11": ("exploration",
  "exhaustive enumeration of all ordered pairs and triples of a value pool (and all short lists for sorted/min/max) checked against the algebraic laws themselves",
  "== is reflexive, symmetric, transitive and != its negation; equal values have equal stable hashes and are interchangeable as dict keys and set members; each ordered type has one total order consistent with == (int/float exactly, against rational arithmetic); sorted is a stable ordered permutation and min/max return the first extreme - on all pairs, all triples and all lists up to length 4 (longer 0/1-key lists for stability).",
  "Laws only: comparisons that fail (unordered types, nesting beyond the limit) are outside the laws except that definedness must be symmetric; the pool is boundary-oriented.",
  "DESIGN.md §3 C11"),
 "C05": ("model_checking",
  "stateless exploration of all thread schedules up to a preemption bound under a controlled scheduler that owns every interpreter-instruction boundary; generic deep-snapshot invariance of all shared state under every (value, operation) pair; separate free-running race-detector pass over operation pairs",
  "Every schedule (<= 2 preemptions quick, 3 threads / 3 preemptions thorough) of threads initialising and running one shared *Program on shared frozen values gives each thread exactly its solo transcript (probe trace, globals, error, backtrace, step count); no read-only or rejected operation, including every advertised method, writes to any shared object (generic reflect/unsafe snapshot); the race detector reports nothing for any pair of operations on any shared value or for concurrent Init.",
  "Scheduling points are instruction boundaries (and instructions inside built-in callbacks); intra-instruction preemption is covered by the snapshot invariant and the race pass, not by schedules. The Go race detector and memory model are trusted.",
  "DESIGN.md §3 C05"),
 "C08": ("exploration",
  "exhaustive enumeration of all signatures x all call shapes (compiled CALL* opcodes and starlark.Call), and of UnpackArgs specs x call shapes x argument types, against a reference binder and a Python 3 differential",
  "All 280 signatures (<=3 positional, */ *args, <=2 keyword-only, **kwargs; def and lambda) x all calls (0-4 positional, named subsets, *seq of length 0-3, **dict variants) bind exactly as the reference binder written from the spec says, and as CPython does on the shared subset; UnpackArgs/UnpackPositionalArgs specs of <=3 parameters over ?/?? markers x 8 target types never clobber the target of a wrong-typed argument.",
  "Trusts the reference binder (cross-checked with CPython) and the reader of the UnpackArgs doc comment; larger signatures are outside the bound.",
  "DESIGN.md §3 C08"),
 "C09": ("exploration",
  "exhaustive planting of each static-rule violation at every syntactic position of generated base programs x all 64 FileOptions vectors against an independent static checker; exhaustive enumeration of call graphs for dynamic recursion",
  "Production rejects a planted program iff the independent static checker does, with its first error inside an offending span and before any code runs, for every plant position and every one of the 2^6 option vectors; every call graph over <=4 functions (direct, lambda, key= callback, second closure edges) fails dynamically exactly when a function code already active is re-entered with Recursion off.",
  "Trusts the reference static checker written from spec.md and options.go; legacy use-before-def under GlobalReassign is tolerated, not judged; base programs bounded by chain length.",
  "DESIGN.md §3 C09"),
 "C13": ("exploration",
  "exhaustive enumeration of receivers (all strings/bytes/lists/tuples of length 0-5 over 3 letters, ranges over [-4,4]^3) x all index/slice triples and method argument tuples, against a spec-derived Python 3 batch oracle",
  "Every indexing, slicing and sequence/string method call in the bound returns the value the spec defines (Python 3's on the shared subset, with a table of documented deviations) or fails where the spec says so. Exhaustive within the bound.",
  "Trusts oracle.py (each operation transcribed from doc/spec.md and cross-checked against CPython's primitive; unexplained disagreement is a harness error); ASCII only; argument shapes the spec leaves undefined are not generated.",
  "DESIGN.md §3 C13"),
 "C14": ("exploration",
  "exhaustive enumeration of syntax trees (all forms, bounded size/depth; operator-nesting profile) x layout vectors with 0-2 deviations x literal spellings, round-tripped through the parser; near-miss texts judged by an independent Earley recogniser for grammar.txt",
  "parse(render(t)) equals t structurally with exact literal values and node start positions for every enumerated tree, layout and literal spelling; every single-token deletion/duplication/swap and paren-pair removal of each short valid text is rejected (parser or resolver, positioned) iff the independent recogniser says it is outside the grammar, and accepted texts print back to the same token stream.",
  "Trusts the AST/renderer/precedence table and the Earley recogniser in internal/c14 (self-checked on every canonical rendering); near-misses accepted only by the documented wide grammar are skipped.",
  "DESIGN.md §3 C14"),
 "C15": ("exploration",
  "exhaustive enumeration of values (every Unicode scalar value, all byte pairs, floats over every exponent x mantissa patterns, boundary ints, container shapes incl. shared and cyclic) through repr -> parse -> eval",
  "For every enumerated value eval(repr(v)) equals v with the same type (bit-identical floats), str(s) == s, Quote/unquote are inverse, and str/repr of every cyclic variant terminate. Exhaustive within the enumerated families.",
  "Uses starlark.Equal for comparison of containers (C11 decides equality); cyclic cases run in crash-isolated workers.",
  "DESIGN.md §3 C15"),
 "C16": ("exploration",
  "exhaustive enumeration of call chains x failing operation kinds x layouts placing every position-table delta (line, column, pc) on each side of each saturation boundary, against the renderer's recorded token positions",
  "For every enumerated case every frame of EvalError.CallStack names the right function at exactly the line and column where the call's '(' or the failing operator token was written, built-in frames are in place and Backtrace() lists the same frames in order. All combinations of the column/line boundary sets for the two rows of an operation, pc fillers, link layouts and the stated extremes are covered.",
  "The renderer's position bookkeeping is the oracle (it counts runes per line as syntax.Position does); argument-binding failures are not position obligations; chains beyond depth 8 and layouts outside the boundary sets are outside the bound.",
  "DESIGN.md §3 C16"),
 "C20": ("model_checking",
  "exhaustive enumeration of (field kind x boundary value x position) assignments against an acceptance table, plus explicit-state BFS over construct/assign/alias/copy/freeze/mutate histories on real messages (path replay, canonical object-graph state with storage identities)",
  "Every scalar kind x value x position case either stores exactly the given value (read back, binary and text round trip) or fails with an error, never a panic; every history up to the stated depth over 2 and 3 message handles keeps frozen storage unchanged, self-assignment lossless and stored values well-typed. Known aliasing defect (shallow copy / sub-message aliasing under separate frozen flags) is recorded in known_findings.json.",
  "Trusts protobuf-go for marshal/equal; acceptance table written from proto.go's documented conversions (conversions the doc leaves open are not judged); handle-permutation symmetry reduction.",
  "DESIGN.md §3 C20"),
 "C07": ("fault_enumeration",
  "exhaustive fault enumeration over the step index (every limit N, every synchronous and asynchronous cancellation point, Cancel/Uncancel orders) per corpus program, explicit-state search of the thread's cancel state machine against a reference model, plus a free-running -race pass",
  "For each corpus program every limit N in [1..S+1], a synchronous Cancel in every built-in call, and an asynchronous Cancel by a second goroutine before every instruction (with both orders of a competing Uncancel) is executed on the real interpreter; exactly the probes before the fault point fire, the error names the first reason, the stack depth is restored; non-terminating programs stop under every limit up to a bound; all Cancel/Uncancel/SetMax/Exec sequences to a depth agree with the sticky-reason model.",
  "Assumes the interpreter observes cancellation only through one atomic pointer read per instruction (so enumerating landing points covers all real-time schedules); the -race pass checks that premise. Corpus programs are bounded in size.",
  "DESIGN.md §3 C07"),
 "C17": ("exploration",
  "small-scope exhaustive enumeration: every program of a feature profile and of the C01 grammar profiles is compiled, written, read back, re-written and both programs executed and compared",
  "For every enumerated program Write(CompiledProgram(Write(P))) is byte-identical and the decoded program is observably identical to the original (probe trace, globals, error text, call-stack positions, backtrace, docstrings, parameter metadata, free variables, load list, step count). Exhaustive within the reported levels.",
  "The in-memory program executed by the production interpreter is the reference for the decoded one; programs larger than the completed levels are outside the bound.",
  "DESIGN.md §3 C17"),
 "C18": ("exploration",
  "small-scope exhaustive enumeration of JSON values (trees up to a node bound over an edge-case leaf pool, with sharing/alias variants) and of JSON documents (all grammar sentences up to a token bound x lexical deviations x single-token corruptions) against an independent RFC 8259 recogniser/value builder cross-checked with encoding/json",
  "Every value in the bound encodes to a document the reference recogniser accepts and that denotes the same data, round-trips through decode, and every enumerated document is accepted with the reference value iff it is valid JSON, default= being returned only for invalid input. Exhaustive within the stated bounds.",
  "Trusts the reference recogniser (cross-checked against encoding/json on every text; disagreement is a harness error). Duplicate member names, non-UTF-8 input, out-of-range numbers and lone surrogates are not judged beyond acceptance.",
  "DESIGN.md §3 C18"),
 "C19": ("exploration",
  "exhaustive enumeration of all ordered operand pairs (time, duration, int, float, string, None values incl. zone-shifted instants) x all 12 operators, evaluated through the real operator dispatch, against the documented operator table in exact integer nanoseconds, plus algebraic laws on all pairs/triples",
  "Every (kind, operator, kind) combination over the value pool either yields the exact result defined by the lib/time operator table or is rejected; the round-trip, ordering, hashing and zone-independence laws hold on all pairs and triples of the pool, under three host time zones.",
  "Results that do not fit int64 nanoseconds are not judged; value pool is boundary-oriented, not all instants.",
  "DESIGN.md §3 C19"),
 "C01": ("exploration",
  "small-scope exhaustive enumeration of programs (8 grammar profiles, iterative deepening by size) executed by the production pipeline and by an independent tree-walking reference evaluator",
  "Every program of every profile up to the completed size level is executed on both sides under the needed dialect options, all options on, and periodically all 16 option combinations; the probe trace with argument values, final globals (with aliasing), outcome and position of the failing operation must agree. Exhaustive within the reported levels; larger programs are outside the bound.",
  "Trusts the reference evaluator (internal/prog/ref.go, written from doc/spec.md) and shares primitive value operations with production (decided by C10-C13). Statically rejected programs are skipped (C09).",
  "DESIGN.md §3 C01, Appendix A"),
 "C12": ("model_checking",
  "explicit-state BFS over the real Dict/Set to a fixpoint, keyed by the private table layout, against an association-list model",
  "Every history of any length over the stated alphabets (5 keys with forced hash collisions, pre-sized 4-bucket table) is covered because the breadth-first search over the real objects reaches a fixpoint on the table layout; 14 interchangeable colliding keys are covered to a stated depth (chain overflow, growth, slot reuse). After every transition all observable views are compared with an ordered association list.",
  "Trusts the verif hook VerifLayout to expose every field insert/lookup/delete/grow/clear read (it dumps all of them), and key symmetry for configuration B; thousands-of-keys histories are outside the bound.",
  "DESIGN.md §3 C12"),
}
NOT_YET = "check not built yet in this revision (planned in DESIGN.md §3); not claimed until it runs"
def main():
    hooks = subprocess.run(["git","-C","/repo","log","--format=%H %s"],capture_output=True,text=True).stdout.splitlines()
    hook_commits = [l.split()[0] for l in hooks if l.split(" ",1)[1].startswith("verif hooks")]
    m = {
     "version": 1,
     "setup_cmd": "./check setup",
     "hooks": {
       "guard": "verif",
       "enable": "go build -tags verif (the engine module replaces go.starlark.net by /repo, so every check compiles /repo's working tree)",
       "baseline_off_cmd": "cd /repo && GOFLAGS=-mod=mod GOPROXY=off go test -vet=off -count=1 ./...",
       "source_commits": hook_commits,
       "add_only": True,
     },
     "engines": [{"name":"vcheck","path":"/verif/engine","serves_properties":sorted(CHECKS),
                  "kind_free_text":"hand-written Go explorer: sharded small-scope enumeration, explicit-state BFS with path replay, deviation-bounded DFS over schedules/faults; drives the real implementation"}],
     "checks": [],
     "not_applicable": [],
     "notes": "See DESIGN.md. known_findings.json lists recorded defects and fixed: entries.",
    }
    for pid in ALL:
        if pid in CHECKS:
            cat, tech, text, note, ref = CHECKS[pid]
            m["checks"].append({
              "property_id": pid,
              "quick_cmd": "./check %s quick" % pid,
              "thorough_cmd": "./check %s thorough" % pid,
              "evidence_file": "/verif/evidence/%s.json" % pid,
              "replay_cmd_template": "./check %s --replay {path}" % pid,
              "engine": "vcheck",
              "level_claimed": {"category": cat, "text": text, "design_ref": ref},
              "level_note": note,
              "technique": tech,
            })
        else:
            m["not_applicable"].append({"property_id": pid, "reason": NOT_YET})
    json.dump(m, open("/verif/MANIFEST.json","w"), indent=1)
    print("wrote MANIFEST.json: %d checks, %d not_applicable" % (len(m["checks"]), len(m["not_applicable"])))
main()
