#!/bin/bash
# usage: tools/seed_eval.sh <ID> <letter>
# Confirms a seeded change delivered in /tmp/seed-<ID>-out/<letter>.diff (suite passes with
# it, demo fails with it and passes without it) in the scratch worktree /tmp/seed-<ID>, then
# runs this directory's check(s) against the changed tree (a scratch copy; /repo is untouched),
# and stores patch, demo and meta.json under /verif/seeded/<ID>-<letter>/.
set -u
ID=$1; L=$2; shift 2; CHECKS=${*:-$ID}
P=${SEED_PREFIX:-seed}; W=/tmp/$P-$ID; O=/tmp/$P-$ID-out; D=/verif/seeded/$ID-$L
export GOFLAGS=-mod=mod GOPROXY=off
demo=$O/${L}_demo_test.go
pkgdir=$(grep -m1 -io 'package directory *[a-z/]*' $demo | awk '{print $NF}' | sed 's#/$##')
[ -n "$pkgdir" ] || pkgdir=starlark
tname=$(grep -o "func Test[A-Za-z0-9_]*" $demo | sed 's/func //' | paste -sd'|')
cd $W && git checkout -q -- . && git clean -fdq
cp $demo $W/$pkgdir/zz_seed_demo_test.go
base=$(go test -vet=off -count=1 -run "$tname" ./$pkgdir/ 2>&1 | tail -1)
git apply $O/$L.diff || { echo "patch does not apply"; exit 2; }
with=$(go test -vet=off -count=1 -run "$tname" ./$pkgdir/ 2>&1 | tail -1)
rm -f $W/$pkgdir/zz_seed_demo_test.go
build=$(go build ./... 2>&1 | tail -1)
if [ -n "${SKIP_SUITE:-}" ] && [ -f $D/meta.json ]; then
  # the suite was run with this change when it was first evaluated; keep that record
  suite=$(python3 -c "import json;print(json.load(open('$D/meta.json'))['confirmed']['repository_suite_with_change'])")
else
  suite=$(go test -vet=off -count=1 ./... 2>&1 | grep -v "no test files" | grep -v "^ok" | head -3 | tr '\n' ' ')
  [ -z "$suite" ] && suite="all packages ok"
fi
echo "demo without change: $base"; echo "demo with change: $with"; echo "suite with change: $suite"
mkdir -p $D; cp $O/$L.diff $D/patch.diff; cp $demo $D/demo_test.go; [ -f $O/$L.md ] && cp $O/$L.md $D/NOTE.md
results=""
for c in $CHECKS; do
  log=$(VERIF_BUDGET_S=${VERIF_BUDGET_S:-600} timeout 3000 /verif/tools/mutant_run.sh $W $c quick 2>&1); rc=$(echo "$log" | grep -o 'mutant_run: exit=[0-9]*' | tail -1 | cut -d= -f2)
  first=$(echo "$log" | grep -m1 -B1 '^VIOLATION' | head -1 | cut -c1-300)
  echo "check $c: exit=$rc  $first"
  results="$results{\"check\":\"$c\",\"tier\":\"quick\",\"exit\":$rc,\"first_violation\":$(python3 -c 'import json,sys;print(json.dumps(sys.argv[1]))' "$first")},"
done
cd $W && git checkout -q -- . && git clean -fdq
python3 - "$D" "$ID" "$L" "$base" "$with" "$suite" "[${results%,}]" "$pkgdir" "$tname" <<'PY'
import json,sys
d,ID,L,base,withc,suite,results,pkgdir,tname=sys.argv[1:]
meta={"property":ID,"change":L,"source":"independent sub-agent given only the property text and a scratch worktree",
 "needs_to_manifest":"see NOTE.md",
 "confirmed":{"demo_without_change":base,"demo_with_change":withc,"repository_suite_with_change":suite,
   "demo_placement":pkgdir+"/","demo_tests":tname},
 "checks_run":json.loads(results)}
json.dump(meta,open(d+"/meta.json","w"),indent=1)
PY
