#!/usr/bin/env python3
"""Merge the hand-written summaries and the first-evaluation record into seeded/<id>/meta.json
and print the markdown table used in DESIGN.md §10.5."""
import json, os, sys
root = '/verif/seeded'
summary = json.load(open(root + '/SUMMARY.json'))
first = json.load(open(root + '/FIRST_RUN.json'))
rows = []
for sid in sorted(os.listdir(root)):
    mp = f'{root}/{sid}/meta.json'
    if not os.path.exists(mp):
        continue
    m = json.load(open(mp))
    s = summary.get(sid)
    if s:
        m['change_summary'] = s['change']
        m['needs_to_manifest'] = s['needs']
    f = first.get(sid) or {'result': 'caught'}
    if f:
        m['first_evaluation'] = f
    json.dump(m, open(mp, 'w'), indent=1)
    caught = [c for c in m.get('checks_run', []) if c.get('exit') == 1]
    by = ', '.join(c['check'] for c in caught) or 'MISSED'
    fv = (caught[0]['first_violation'][:110].replace('|', '/') if caught else '')
    fe = (f or {}).get('result', '')
    if (f or {}).get('what_was_done'):
        w = f['what_was_done']
        fe = w if w.startswith(fe) else fe + ': ' + w
    rows.append((sid, m.get('change_summary', ''), m.get('needs_to_manifest', ''), by, fe))
print('| seed | change (by an independent sub-agent) | needs | caught by (now) | first evaluation, and what was added |')
print('|---|---|---|---|---|')
for r in rows:
    print('| ' + ' | '.join(x.replace('\n', ' ').replace('|', '/') for x in r) + ' |')
