#!/bin/bash
# usage: tools/mutant_run.sh <mutated-copy-of-/repo> <ID> [tier]
# Runs one property's check against a mutated copy of starlark-go without
# touching /repo or /verif/evidence. Exit code and output are the check's.
set -u
M=$(realpath "$1"); ID=$2; TIER=${3:-quick}
lc=$(echo "$ID" | tr A-Z a-z)
S=$(mktemp -d /tmp/mutrun-XXXXXX)
trap 'rm -rf "$S"' EXIT
cp -r "${VERIF_ENGINE_SRC:-/verif/engine}" "$S/engine"
cd "$S/engine" || exit 2
sed -i "s#^replace go.starlark.net => .*#replace go.starlark.net => $M#" go.mod
cp "$M/go.sum" go.sum
export GOFLAGS=-mod=mod GOPROXY=off
unset GOTOOLCHAIN GOSUMDB 2>/dev/null
PKG=./cmd/dev/$lc; [ -d "$PKG" ] || PKG=./cmd/vcheck
mkdir -p "$S/bin" "$S/out"
go build -tags verif -o "$S/bin/vcheck" $PKG || { echo "HARNESS-ERROR: build against mutant failed (mutation does not compile with hooks?)"; exit 2; }
case "$ID" in C05|C07|C03) go build -race -tags verif -o "$S/bin/vcheck-race" $PKG || exit 2;; esac
VERIF_BIN="$S/bin" VERIF_OUT="$S/out" "$S/bin/vcheck" run "$ID" "$TIER"
rc=$?
echo "mutant_run: exit=$rc"
exit $rc
